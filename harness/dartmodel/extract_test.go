package dartmodel

import (
	"reflect"
	"strings"
	"testing"
)

func fnByName(t *testing.T, f *File, name string) *Function {
	t.Helper()
	for _, fn := range f.Functions {
		if fn.Name == name {
			return fn
		}
	}
	t.Fatalf("function %s not found in %s (have %v)", name, f.Name, names(f.Functions, functionName))
	return nil
}

// oneFunc parses a source holding a single top-level function.
func oneFunc(t *testing.T, src string) *Function {
	t.Helper()
	f := mustParse(t, "t.dart", src)
	if len(f.Functions) != 1 || len(f.Unknown) != 0 {
		t.Fatalf("want exactly one function in %q, got %d (unknown %q)", src, len(f.Functions), f.Unknown)
	}
	return f.Functions[0]
}

// ku strips the line numbers for comparison.
func ku(in []KeyUse) []KeyUse {
	out := []KeyUse{}
	for _, k := range in {
		k.Line = 0
		out = append(out, k)
	}
	return out
}

func kw(in []KeyWrite) []KeyWrite {
	out := []KeyWrite{}
	for _, k := range in {
		k.Line = 0
		k.Expr = ""
		out = append(out, k)
	}
	return out
}

func TestJSONReadsSample(t *testing.T) {
	f := mustParse(t, "testsource.dart", readSample(t, "/repo/generator/dart/test/testsource.dart"))

	ctor, reads := fnByName(t, f, "complexStructFromJson").JSONReads()
	if ctor != "ComplexStruct" {
		t.Errorf("ctor %q", ctor)
	}
	type kc struct{ key, callee string }
	want := []kc{
		{"with_tag", "dictIntToIntFromJson"}, {"Time", "dateTimeFromJson"}, {"B", "stringFromJson"},
		{"Value", "itfTypeFromJson"}, {"L", "itfListFromJson"}, {"A", "intFromJson"}, {"E", "enumIntFromJson"},
		{"E2", "enumUIntFromJson"}, {"Date", "dateTimeFromJson"}, {"F", "listListBoolFromJson"},
		{"Imported", "structWithCommentFromJson"}, {"EnumMap", "dictEnumIntToBoolFromJson"},
	}
	if len(reads) != len(want) {
		t.Fatalf("%d reads: %+v", len(reads), reads)
	}
	for i, w := range want {
		r := reads[i]
		if r.Key != w.key || r.Callee != w.callee || r.Var != "json" || r.Arg != i || !r.Exact || r.Interp {
			t.Errorf("read %d = %+v, want %v", i, r, w)
		}
	}

	ctor, reads = fnByName(t, f, "withOpaqueFromJson").JSONReads()
	wantOpaque := []KeyUse{
		{Key: "F1", Callee: "", Var: "json", Arg: 0, Exact: true},
		{Key: "F2", Callee: "", Var: "json", Arg: 1, Exact: true},
		{Key: "F3", Callee: "structWithExternalRefFromJson", Var: "json", Arg: 2, Exact: true},
	}
	if ctor != "WithOpaque" || !reflect.DeepEqual(ku(reads), wantOpaque) {
		t.Errorf("withOpaque: %q %+v", ctor, reads)
	}

	// a union FromJson has reads, but they are outside any `return Name(`
	ctor, reads = fnByName(t, f, "itfTypeFromJson").JSONReads()
	wantUnion := []KeyUse{{Key: "Kind", Var: "json", Arg: -1}, {Key: "Data", Var: "json", Arg: -1}}
	if ctor != "concretType1FromJson" || !reflect.DeepEqual(ku(reads), wantUnion) {
		t.Errorf("union: %q %+v", ctor, reads)
	}

	// the named wrapper returns a call without reads
	ctor, reads = fnByName(t, f, "itfListFromJson").JSONReads()
	if ctor != "listItfTypeFromJson" || len(reads) != 0 {
		t.Errorf("named: %q %+v", ctor, reads)
	}
}

func TestJSONReadsForms(t *testing.T) {
	tests := []struct {
		name  string
		src   string
		ctor  string
		reads []KeyUse
	}{
		{"single opaque field is not a callee",
			`W wFromJson(dynamic json_) { final json = (json_ as Map<String, dynamic>); return W(json['F1']); }`,
			"W", []KeyUse{{Key: "F1", Var: "json", Arg: 0, Exact: true}}},
		{"double quotes, odd layout, trailing comma",
			"W wFromJson(dynamic json_){final json=json_ as JSON;return W(\n intFromJson ( json [ \"A\" ] ) ,json[\n'B'],);}",
			"W", []KeyUse{{Key: "A", Callee: "intFromJson", Var: "json", Arg: 0, Exact: true}, {Key: "B", Var: "json", Arg: 1, Exact: true}}},
		{"const and new",
			`W f(dynamic json) { return const W(intFromJson(json['A'])); }`,
			"W", []KeyUse{{Key: "A", Callee: "intFromJson", Var: "json", Arg: 0, Exact: true}}},
		{"arrow body",
			`W f(dynamic json) => W(intFromJson(json['A']), json['B']);`,
			"W", []KeyUse{{Key: "A", Callee: "intFromJson", Var: "json", Arg: 0, Exact: true}, {Key: "B", Var: "json", Arg: 1, Exact: true}}},
		{"extra tokens are not exact",
			`W f(dynamic json) { return W(intFromJson(json['A']) ?? 0, json['B'] as int, stringFromJson(json['C'], 1), g(h(json['D']))); }`,
			"W", []KeyUse{
				{Key: "A", Callee: "intFromJson", Var: "json", Arg: 0, Exact: false},
				{Key: "B", Var: "json", Arg: 1, Exact: false},
				{Key: "C", Var: "json", Arg: 2, Exact: false},
				{Key: "D", Callee: "h", Var: "json", Arg: 3, Exact: false},
			}},
		{"dotted callee and method callee",
			`W f(dynamic json) { return W(DateTime.parse(json['A']), json['B'].toString(), (x).conv(json['C'])); }`,
			"W", []KeyUse{
				{Key: "A", Callee: "DateTime.parse", Var: "json", Arg: 0, Exact: true},
				{Key: "B", Var: "json", Arg: 1, Exact: false},
				{Key: "C", Var: "json", Arg: 2, Exact: false},
			}},
		{"named arguments",
			`W f(dynamic json) { return W(a: intFromJson(json['A'])); }`,
			"W", []KeyUse{{Key: "A", Callee: "intFromJson", Var: "json", Arg: 0, Exact: false}}},
		{"other variable and interpolated key",
			`W f(dynamic m) { return W(intFromJson(m['pri$ce']), intFromJson(m["a\$b"])); }`,
			"W", []KeyUse{
				{Key: "pri$ce", Callee: "intFromJson", Var: "m", Arg: 0, Exact: true, Interp: true},
				{Key: "a$b", Callee: "intFromJson", Var: "m", Arg: 1, Exact: true},
			}},
		{"member index is not a read",
			`W f(dynamic json) { return W(x.json['A'], json[0], json[k]); }`, "W", []KeyUse{}},
		{"escaped key",
			`W f(dynamic json) { return W(intFromJson(json['it\'s']), intFromJson(json["a\"b"])); }`,
			"W", []KeyUse{
				{Key: "it's", Callee: "intFromJson", Var: "json", Arg: 0, Exact: true},
				{Key: `a"b`, Callee: "intFromJson", Var: "json", Arg: 1, Exact: true},
			}},
		{"no return call", `int f(dynamic json) => json as int;`, "", []KeyUse{}},
		{"reads before the return",
			`W f(dynamic json) { final a = intFromJson(json['A']); return W(a); }`,
			"W", []KeyUse{{Key: "A", Callee: "intFromJson", Var: "json", Arg: -1}}},
		{"same key twice",
			`W f(dynamic json) { return W(intFromJson(json['A']), intFromJson(json['A'])); }`,
			"W", []KeyUse{
				{Key: "A", Callee: "intFromJson", Var: "json", Arg: 0, Exact: true},
				{Key: "A", Callee: "intFromJson", Var: "json", Arg: 1, Exact: true},
			}},
	}
	for _, tc := range tests {
		t.Run(tc.name, func(t *testing.T) {
			ctor, reads := oneFunc(t, tc.src).JSONReads()
			if ctor != tc.ctor || !reflect.DeepEqual(ku(reads), tc.reads) {
				t.Errorf("JSONReads\n got %q %+v\nwant %q %+v", ctor, ku(reads), tc.ctor, tc.reads)
			}
		})
	}
}

func TestJSONWritesSample(t *testing.T) {
	f := mustParse(t, "testsource.dart", readSample(t, "/repo/generator/dart/test/testsource.dart"))
	got := fnByName(t, f, "complexStructToJson").JSONWrites()
	type kcf struct{ key, callee, field string }
	want := []kcf{
		{"with_tag", "dictIntToIntToJson", "with_tag"}, {"Time", "dateTimeToJson", "time"}, {"B", "stringToJson", "b"},
		{"Value", "itfTypeToJson", "value"}, {"L", "itfListToJson", "l"}, {"A", "intToJson", "a"},
		{"E", "enumIntToJson", "e"}, {"E2", "enumUIntToJson", "e2"}, {"Date", "dateTimeToJson", "date"},
		{"F", "listListBoolToJson", "f"}, {"Imported", "structWithCommentToJson", "imported"},
		{"EnumMap", "dictEnumIntToBoolToJson", "enumMap"},
	}
	if len(got) != len(want) {
		t.Fatalf("%d writes", len(got))
	}
	for i, w := range want {
		g := got[i]
		if g.Key != w.key || g.Callee != w.callee || g.Field != w.field || g.Var != "item" || !g.Exact || g.Interp {
			t.Errorf("write %d = %+v, want %v", i, g, w)
		}
	}
	if got[0].Expr != "dictIntToIntToJson ( item . with_tag )" || got[0].Line != 61 {
		t.Errorf("write 0: %+v", got[0])
	}

	got = fnByName(t, f, "withOpaqueToJson").JSONWrites()
	wantOpaque := []KeyWrite{
		{Key: "F1", Field: "f1", Var: "item", Exact: true},
		{Key: "F2", Field: "f2", Var: "item", Exact: true},
		{Key: "F3", Callee: "structWithExternalRefToJson", Field: "f3", Var: "item", Exact: true},
	}
	if !reflect.DeepEqual(kw(got), wantOpaque) {
		t.Errorf("withOpaque %+v", got)
	}

	// routines without a returned map literal
	for _, name := range []string{"listIntToJson", "itfListToJson", "dictIntToIntToJson", "complexStructFromJson"} {
		if w := fnByName(t, f, name).JSONWrites(); len(w) != 0 {
			t.Errorf("%s: writes %+v", name, w)
		}
	}
}

func TestJSONWritesForms(t *testing.T) {
	tests := []struct {
		name string
		src  string
		want []KeyWrite
	}{
		{"raw template spacing",
			"Map<String, dynamic> sToJson(S item) {\n\t\treturn {\n\t\t\t\"F1\" :  item.f1,\n\"A\" : intToJson(item.a)\n\t\t};\n\t}",
			[]KeyWrite{{Key: "F1", Field: "f1", Var: "item", Exact: true}, {Key: "A", Callee: "intToJson", Field: "a", Var: "item", Exact: true}}},
		{"single quotes and trailing comma",
			`JSON sToJson(S item) { return { 'A' : intToJson( item . a ), }; }`,
			[]KeyWrite{{Key: "A", Callee: "intToJson", Field: "a", Var: "item", Exact: true}}},
		{"arrow map",
			`JSON sToJson(S it) => {"A": intToJson(it.a)};`,
			[]KeyWrite{{Key: "A", Callee: "intToJson", Field: "a", Var: "it", Exact: true}}},
		{"empty map", `JSON sToJson(S item) { return { }; }`, []KeyWrite{}},
		{"values of other shapes",
			`JSON f(S item) { return {"A": intToJson(item.a) + 1, "B": item.a.b, "C": g(intToJson(item.c)), "D": 3, "E": intToJson(item.e, 2), "F": x.intToJson(item.f), "G": item}; }`,
			[]KeyWrite{{Key: "A"}, {Key: "B"}, {Key: "C"}, {Key: "D"}, {Key: "E"}, {Key: "F", Callee: "x.intToJson", Field: "f", Var: "item", Exact: true}, {Key: "G"}}},
		{"non literal keys",
			`JSON f(S item) { return {kA: intToJson(item.a), "B" "C": item.b, ...other}; }`,
			[]KeyWrite{{}, {}, {}}},
		{"interpolated key",
			`JSON f(S item) { return {"pri$ce": intToJson(item.price), "a\$b": item.ab}; }`,
			[]KeyWrite{{Key: "pri$ce", Callee: "intToJson", Field: "price", Var: "item", Exact: true, Interp: true}, {Key: "a$b", Field: "ab", Var: "item", Exact: true}}},
		{"nested maps are one entry",
			`JSON f(S item) { return {"A": {"X": item.x, "Y": item.y}, "B": item.b}; }`,
			[]KeyWrite{{Key: "A"}, {Key: "B", Field: "b", Var: "item", Exact: true}}},
		{"first returned map wins",
			`JSON f(S item) { if (item.a) { return {"A": item.a}; } return {"B": item.b}; }`,
			[]KeyWrite{{Key: "A", Field: "a", Var: "item", Exact: true}}},
		{"block body is not a map", `void f(S item) { g(item.a); }`, []KeyWrite{}},
	}
	for _, tc := range tests {
		t.Run(tc.name, func(t *testing.T) {
			got := kw(oneFunc(t, tc.src).JSONWrites())
			if !reflect.DeepEqual(got, tc.want) {
				t.Errorf("JSONWrites\n got %+v\nwant %+v", got, tc.want)
			}
		})
	}
	// Expr keeps the entry text
	w := oneFunc(t, `JSON f(S item) { return {kA: g(item.a), "B": item.b ?? 1}; }`).JSONWrites()
	if w[0].Expr != "kA : g ( item . a )" || w[1].Expr != "item . b ?? 1" {
		t.Errorf("Expr %q %q", w[0].Expr, w[1].Expr)
	}
}

func uc(in []UnionCase) []UnionCase {
	out := []UnionCase{}
	for _, c := range in {
		c.Line = 0
		out = append(out, c)
	}
	return out
}

func uw(in []UnionWrite) []UnionWrite {
	out := []UnionWrite{}
	for _, c := range in {
		c.Line = 0
		out = append(out, c)
	}
	return out
}

func TestUnionSample(t *testing.T) {
	f := mustParse(t, "testsource.dart", readSample(t, "/repo/generator/dart/test/testsource.dart"))

	from := fnByName(t, f, "itfTypeFromJson")
	cases, keys, def := from.UnionCases()
	wantCases := []UnionCase{
		{Kind: "ConcretType1", Callee: "concretType1FromJson", Arg: "data"},
		{Kind: "ConcretType2", Callee: "concretType2FromJson", Arg: "data"},
	}
	if !reflect.DeepEqual(uc(cases), wantCases) || !reflect.DeepEqual(keys, []string{"Kind", "Data"}) || !def {
		t.Errorf("UnionCases = %+v %v %v", cases, keys, def)
	}
	if got := from.KeyBindings(); !reflect.DeepEqual(got, []KeyBinding{{"kind", "Kind"}, {"data", "Data"}}) {
		t.Errorf("KeyBindings %v", got)
	}
	if got := from.SwitchSubject(); got != "kind" {
		t.Errorf("SwitchSubject %q", got)
	}

	to := fnByName(t, f, "itfTypeToJson")
	writes, elseThrow := to.UnionWritesInfo()
	wantWrites := []UnionWrite{
		{DartType: "ConcretType1", Kind: "ConcretType1", Callee: "concretType1ToJson", KindKey: "Kind", DataKey: "Data", Var: "item", Arg: "item", Entries: 2},
		{DartType: "ConcretType2", Kind: "ConcretType2", Callee: "concretType2ToJson", KindKey: "Kind", DataKey: "Data", Var: "item", Arg: "item", Entries: 2},
	}
	if !reflect.DeepEqual(uw(writes), wantWrites) || !elseThrow {
		t.Errorf("UnionWrites = %+v %v", writes, elseThrow)
	}
	if !reflect.DeepEqual(to.UnionWrites(), writes) {
		t.Errorf("UnionWrites differs from UnionWritesInfo")
	}

	// the enum label switch has no string cases; struct routines have none
	cases, keys, def = fnByName(t, f, "enumIntLabel").UnionCases()
	if len(cases) != 0 || len(keys) != 0 || def {
		t.Errorf("enumIntLabel: %v %v %v", cases, keys, def)
	}
	if w := fnByName(t, f, "complexStructToJson").UnionWrites(); len(w) != 0 {
		t.Errorf("struct ToJson has union writes: %v", w)
	}
}

func TestUnionCasesForms(t *testing.T) {
	tests := []struct {
		name  string
		src   string
		cases []UnionCase
		keys  []string
		def   bool
	}{
		{"raw template one line",
			"U uFromJson(dynamic json_) {\n\t\tfinal json = json_ as Map<String, dynamic>;\n\t\tfinal kind = json['Kind'] as String;\n\t\tfinal data = json['Data'];\n\t\tswitch (kind) {\n\t\t\tcase \"A\":\n\t\t\treturn aFromJson(data);\ncase \"B\":\n\t\t\treturn bFromJson(data);\n\t\tdefault:\n\t\t\tthrow (\"unexpected type\");\n\t\t}\n\t}",
			[]UnionCase{{Kind: "A", Callee: "aFromJson", Arg: "data"}, {Kind: "B", Callee: "bFromJson", Arg: "data"}}, []string{"Kind", "Data"}, true},
		{"no default",
			`U f(dynamic json) { switch (json["Kind"]) { case 'A': return aFromJson(json["Data"]); } throw "x"; }`,
			[]UnionCase{{Kind: "A"}}, []string{"Kind", "Data"}, false},
		{"default returns",
			`U f(dynamic json) { final kind = json['kind']; switch (kind) { case "A": return aFromJson(d); default: return null; } }`,
			[]UnionCase{{Kind: "A", Callee: "aFromJson", Arg: "d"}}, []string{"kind"}, false},
		{"default before cases does not see later throw",
			`U f(dynamic json) { switch (k) { default: return null; case "A": throw "no"; } }`,
			[]UnionCase{{Kind: "A"}}, nil, false},
		{"default ends with the switch",
			`U f(dynamic json) { switch (k) { case "A": return aFromJson(data); default: } throw "later"; }`,
			[]UnionCase{{Kind: "A", Callee: "aFromJson", Arg: "data"}}, nil, false},
		{"case bodies of other shapes",
			`U f(dynamic json) { switch (k) { case "A": return aFromJson(data, 1); case "B": x = 1; return bFromJson(data); case "C": return p.cFromJson(data); case "D": return data; default: throw "x"; } }`,
			[]UnionCase{{Kind: "A"}, {Kind: "B"}, {Kind: "C", Callee: "p.cFromJson", Arg: "data"}, {Kind: "D"}}, nil, true},
		{"duplicate kinds are kept",
			`U f(dynamic json) { switch (k) { case "A": return aFromJson(data); case "A": return a2FromJson(data); default: throw "x"; } }`,
			[]UnionCase{{Kind: "A", Callee: "aFromJson", Arg: "data"}, {Kind: "A", Callee: "a2FromJson", Arg: "data"}}, nil, true},
		{"non string cases ignored",
			`U f(dynamic json) { switch (k) { case 1: return a(data); case E.x: return b(data); } }`, []UnionCase{}, nil, false},
	}
	for _, tc := range tests {
		t.Run(tc.name, func(t *testing.T) {
			cases, keys, def := oneFunc(t, tc.src).UnionCases()
			if !reflect.DeepEqual(uc(cases), tc.cases) || !reflect.DeepEqual(keys, tc.keys) || def != tc.def {
				t.Errorf("UnionCases\n got %+v %v %v\nwant %+v %v %v", uc(cases), keys, def, tc.cases, tc.keys, tc.def)
			}
		})
	}
}

func TestUnionWritesForms(t *testing.T) {
	tests := []struct {
		name      string
		src       string
		want      []UnionWrite
		elseThrow bool
	}{
		{"raw template",
			"Map<String, dynamic> uToJson(U item) {\n\t\tif (item is A) {\n\t\t\treturn {'Kind': \"A\", 'Data': aToJson(item)};\n\t\t}else if (item is B) {\n\t\t\treturn {'Kind': \"B\", 'Data': bToJson(item)};\n\t\t} else {\n\t\t\tthrow (\"unexpected type\");\n\t\t}\t\n\t}",
			[]UnionWrite{
				{DartType: "A", Kind: "A", Callee: "aToJson", KindKey: "Kind", DataKey: "Data", Var: "item", Arg: "item", Entries: 2},
				{DartType: "B", Kind: "B", Callee: "bToJson", KindKey: "Kind", DataKey: "Data", Var: "item", Arg: "item", Entries: 2},
			}, true},
		{"other order, quotes, generic type, no else",
			`JSON f(U v) { if (v is List<A>) return {"data": aToJson(v), "kind": 'a'}; throw "x"; }`,
			[]UnionWrite{{DartType: "List<A>", Kind: "a", Callee: "aToJson", KindKey: "kind", DataKey: "data", Var: "v", Arg: "v", Entries: 2}}, false},
		{"else throw without braces",
			`JSON f(U item) { if (item is A) { return {'Kind': "A", 'Data': aToJson(item)}; } else throw "x"; }`,
			[]UnionWrite{{DartType: "A", Kind: "A", Callee: "aToJson", KindKey: "Kind", DataKey: "Data", Var: "item", Arg: "item", Entries: 2}}, true},
		{"branches of other shapes",
			`JSON f(U item) { if (item is A) { return aToJson(item); } else if (item is B) { return {'Kind': "B"}; } else if (item is C) { return {'Kind': kC, 'Data': cToJson(item), 'X': 1}; } else if (item is! D) { return {}; } else if (item.x is E) { return {}; } return {}; }`,
			[]UnionWrite{
				{DartType: "A", Var: "item"},
				{DartType: "B", Kind: "B", KindKey: "Kind", Var: "item", Entries: 1},
				{DartType: "C", Callee: "cToJson", DataKey: "Data", Var: "item", Arg: "item", Entries: 3},
			}, false},
		{"nested if is not searched for the outer branch",
			`JSON f(U item) { if (item is A) { if (item is B) { return {'Kind': "B", 'Data': bToJson(item)}; } } }`,
			[]UnionWrite{
				{DartType: "A", Var: "item"},
				{DartType: "B", Kind: "B", Callee: "bToJson", KindKey: "Kind", DataKey: "Data", Var: "item", Arg: "item", Entries: 2},
			}, false},
		{"none", `JSON f(U item) { return {"A": item.a}; }`, []UnionWrite{}, false},
	}
	for _, tc := range tests {
		t.Run(tc.name, func(t *testing.T) {
			got, elseThrow := oneFunc(t, tc.src).UnionWritesInfo()
			if !reflect.DeepEqual(uw(got), tc.want) || elseThrow != tc.elseThrow {
				t.Errorf("UnionWrites\n got %+v %v\nwant %+v %v", uw(got), elseThrow, tc.want, tc.elseThrow)
			}
		})
	}
}

func TestCalleesAndIdents(t *testing.T) {
	tests := []struct {
		name    string
		src     string
		callees []string
		idents  string // space separated
	}{
		{"list from",
			`List<int> listIntFromJson(dynamic json) { if (json == null) { return []; } return (json as List<dynamic>).map(intFromJson).toList(); }`,
			nil, "json List dynamic intFromJson"},
		{"map to",
			`Map<String, dynamic> f(Map<int,int> item) { return item.map((k,v) => MapEntry(intToJson(k).toString(), intToJson(v))); }`,
			[]string{"MapEntry", "intToJson", "intToJson"}, "item k v MapEntry intToJson"},
		{"map from int key",
			`Map<int,int> f(dynamic json) { return (json as Map<String, dynamic>).map((k,v) => MapEntry(int.parse(k), intFromJson(v))); }`,
			[]string{"MapEntry", "intFromJson"}, "json Map String dynamic k v MapEntry int intFromJson"},
		{"enum from", `E eFromJson(dynamic json) => _EExt.fromValue(json as int);`, nil, "_EExt json int"},
		{"time", `DateTime f(dynamic json) => DateTime.parse(json as String);`, nil, "DateTime json String"},
		{"control words and strings",
			`U f(dynamic j) { switch (k) { case "a": return g(d); default: throw ("h(x) $y"); } for (;;) {} while (a) {} assert(b); }`,
			[]string{"g"}, "k g d a b"},
		{"struct from",
			`S f(dynamic json_) { final json = (json_ as Map<String, dynamic>); return S(intFromJson(json['A']), json['B']); }`,
			[]string{"S", "intFromJson"}, "json json_ Map String dynamic S intFromJson"},
	}
	for _, tc := range tests {
		t.Run(tc.name, func(t *testing.T) {
			fn := oneFunc(t, tc.src)
			if got := fn.Callees(); !reflect.DeepEqual(got, tc.callees) {
				t.Errorf("Callees = %v, want %v", got, tc.callees)
			}
			if got := strings.Join(fn.Idents(), " "); got != tc.idents {
				t.Errorf("Idents = %q, want %q", got, tc.idents)
			}
		})
	}
}

func TestReturnCall(t *testing.T) {
	tests := []struct {
		src  string
		name string
		args []string
	}{
		{`S f(dynamic j) { return S(a, g(b, c), [d, e], {f: g}, h); }`, "S", []string{"a", "g ( b , c )", "[ d , e ]", "{ f : g }", "h"}},
		{`S f(dynamic j) { return S(); }`, "S", nil},
		{`S f(dynamic j) => S(a, b);`, "S", []string{"a", "b"}},
		{`S f(dynamic j) => S(a).b;`, "", nil},
		{`S f(dynamic j) { return x; }`, "", nil},
		{`S f(dynamic j) { return x.S(a); }`, "", nil},
		{`S f(dynamic j) { if (a) { return null; } return new S(a,); }`, "S", []string{"a"}},
	}
	for _, tc := range tests {
		fn := oneFunc(t, tc.src)
		name, open, args := fn.ReturnCall()
		var got []string
		for _, a := range args {
			got = append(got, bodyTextPlain(fn.Body[a[0]:a[1]]))
		}
		if name != tc.name || !reflect.DeepEqual(got, tc.args) || (name == "") != (open == -1) {
			t.Errorf("ReturnCall(%s) = %q %d %q, want %q %q", tc.src, name, open, got, tc.name, tc.args)
		}
	}
}

func bodyTextPlain(toks []Token) string {
	parts := make([]string, len(toks))
	for i, t := range toks {
		parts[i] = t.Raw
	}
	return strings.Join(parts, " ")
}

// The extraction helpers must also work on methods and on functions that
// were built by hand (no cached bracket table).
func TestExtractOnHandBuiltFunction(t *testing.T) {
	toks, err := Lex("t", `return S(intFromJson(json['A']));`)
	if err != nil {
		t.Fatal(err)
	}
	fn := &Function{Name: "f", Body: toks}
	ctor, reads := fn.JSONReads()
	if ctor != "S" || len(reads) != 1 || reads[0].Callee != "intFromJson" || !reads[0].Exact {
		t.Errorf("%q %+v", ctor, reads)
	}
	empty := &Function{}
	if c, r := empty.JSONReads(); c != "" || r != nil {
		t.Errorf("empty: %q %v", c, r)
	}
	if empty.JSONWrites() != nil || empty.UnionWrites() != nil || empty.Callees() != nil {
		t.Errorf("empty function yields results")
	}
}

func TestDanglingElse(t *testing.T) {
	tests := []struct {
		src  string
		want bool
	}{
		{`JSON f(U item) { else { throw ("unexpected type"); } }`, true},
		{`JSON f(U item) { if (a) { return x; } else { throw "x"; } }`, false},
		{`JSON f(U item) { if (a) return x; else throw "x"; }`, false},
		{`JSON f(U item) { if (a) { return x; } else if (b) { return y; } else { throw "x"; } }`, false},
		{`JSON f(U item) { g() else { } }`, true},
		{`JSON f(U item) { return item.else; }`, false},
		{`JSON f(U item) { }`, false},
	}
	for _, tc := range tests {
		if got := oneFunc(t, tc.src).DanglingElse(); got != tc.want {
			t.Errorf("DanglingElse(%s) = %v", tc.src, got)
		}
	}
	// the raw union template without members
	f := mustParse(t, "x.dart", rawFile(nil, rawUnion("p.U", "U", nil)))
	if !fnByName(t, f, "uToJson").DanglingElse() || fnByName(t, f, "uFromJson").DanglingElse() {
		t.Errorf("empty union: dangling else not detected")
	}
	f = mustParse(t, "x.dart", rawFile(nil, rawUnion("p.U", "U", []rawUnionMember{{"A", "A", "a"}, {"B", "B", "b"}})))
	if fnByName(t, f, "uToJson").DanglingElse() {
		t.Errorf("dangling else in a regular union")
	}
}
