package dartmodel

import (
	"fmt"
	"os"
	"path/filepath"
	"reflect"
	"sort"
	"strings"
	"testing"
)

var sampleFiles = []string{
	"/repo/generator/dart/test/gen_test.dart",
	"/repo/generator/dart/test/predefined.dart",
	"/repo/generator/dart/test/stdlib_math_big.dart",
	"/repo/generator/dart/test/stdlib_time.dart",
	"/repo/generator/dart/test/testsource.dart",
	"/repo/generator/dart/test/testsource_subpackage.dart",
	"/repo/cmd/test/out.dart",
	"/repo/cmd/test/predefined.dart",
	"/repo/cmd/test/test.dart",
}

func readSample(t *testing.T, path string) string {
	t.Helper()
	b, err := os.ReadFile(path)
	if err != nil {
		t.Skipf("sample not available: %v", err)
	}
	return string(b)
}

func mustParse(t *testing.T, name, src string) *File {
	t.Helper()
	f, err := ParseFile(name, src)
	if err != nil {
		t.Fatalf("ParseFile(%s): %v", name, err)
	}
	return f
}

// allUnknown gathers the unknown chunks of every level.
func allUnknown(f *File) []string {
	out := append([]string{}, f.Unknown...)
	for _, c := range f.Classes {
		for _, u := range c.Unknown {
			out = append(out, "class "+c.Name+": "+u)
		}
	}
	for _, e := range f.Extensions {
		for _, u := range e.Unknown {
			out = append(out, "extension "+e.Name+": "+u)
		}
	}
	return out
}

func bodyText(toks []Token) string {
	parts := make([]string, len(toks))
	for i, t := range toks {
		if t.Kind == KindString {
			parts[i] = fmt.Sprintf("%q", t.Text)
		} else {
			parts[i] = t.Text
		}
	}
	return strings.Join(parts, " ")
}

func paramsText(ps []Param) string {
	var parts []string
	for _, p := range ps {
		s := p.Type + " " + p.Name
		if p.This {
			s = "this." + p.Name
		}
		s = strings.TrimSpace(s)
		if p.Named {
			s = "{" + s + "}"
		} else if p.Optional {
			s = "[" + s + "]"
		}
		if p.Required {
			s = "required " + s
		}
		if p.HasDefault {
			s += "=?"
		}
		parts = append(parts, strings.TrimSpace(s))
	}
	return strings.Join(parts, ", ")
}

func funcText(fn *Function) string {
	s := ""
	if fn.Static {
		s = "static "
	}
	body := "{ " + bodyText(fn.Body) + " }"
	if fn.Arrow {
		body = "=> " + bodyText(fn.Body)
	}
	return fmt.Sprintf("%s%s %s(%s) %s%s", s, fn.ReturnType, fn.Name, paramsText(fn.Params), fn.Async, body)
}

func litsText(l []Lit) string {
	var parts []string
	for _, x := range l {
		parts = append(parts, x.Kind+":"+x.Text)
	}
	return "[" + strings.Join(parts, ", ") + "]"
}

func constListsText(m map[string][]Lit) []string {
	var out []string
	for k, v := range m {
		out = append(out, "  const "+k+" = "+litsText(v))
	}
	sort.Strings(out)
	return out
}

// summary renders the whole model without positions, so that differently
// laid out sources can be compared.
func summary(f *File) string {
	var sb strings.Builder
	w := func(format string, args ...any) { fmt.Fprintf(&sb, format+"\n", args...) }
	for _, imp := range f.Imports {
		w("import %s", imp)
	}
	for _, c := range f.Classes {
		w("class %s mods=%v abstract=%v extends=%q with=%v implements=%v", c.Name, c.Modifiers, c.Abstract, c.Extends, c.With, c.Implements)
		for _, fi := range c.Fields {
			w("  field %s %s final=%v late=%v init=%v", fi.Type, fi.Name, fi.Final, fi.Late, fi.HasInit)
		}
		if c.Ctor != nil {
			w("  ctor const=%v (%s) names=%v", c.Ctor.Const, paramsText(c.Ctor.Params), c.CtorParams)
		}
		for _, m := range c.Methods {
			w("  method %s", funcText(m))
		}
		for _, l := range constListsText(c.ConstLists) {
			w("%s", l)
		}
		for _, u := range c.Unknown {
			w("  unknown %s", u)
		}
	}
	for _, td := range f.Typedefs {
		w("typedef %s = %s", td.Name, td.Target)
	}
	for _, e := range f.Enums {
		w("enum %s %v", e.Name, e.Values)
	}
	for _, e := range f.Extensions {
		w("extension %s on %s body=%s", e.Name, e.On, bodyText(e.Body))
		for _, l := range constListsText(e.ConstLists) {
			w("%s", l)
		}
		for _, m := range e.Methods {
			w("  method %s", funcText(m))
		}
		for _, u := range e.Unknown {
			w("  unknown %s", u)
		}
	}
	for _, fn := range f.Functions {
		w("func %s", funcText(fn))
	}
	for _, u := range f.Unknown {
		w("unknown %s", u)
	}
	return sb.String()
}

func names[T any](items []T, name func(T) string) []string {
	out := []string{}
	for _, it := range items {
		out = append(out, name(it))
	}
	return out
}

func className(c *Class) string       { return c.Name }
func typedefName(t *Typedef) string   { return t.Name + "=" + t.Target }
func enumName(e *Enum) string         { return e.Name }
func extName(e *Extension) string     { return e.Name + " on " + e.On }
func functionName(f *Function) string { return f.Name }

func TestSamplesFullyClassified(t *testing.T) {
	// expected number of items per sample: imports, classes, typedefs, enums, extensions, functions
	want := map[string][6]int{
		"gen_test.dart":              {3, 0, 0, 0, 0, 1},
		"predefined.dart":            {0, 0, 0, 0, 0, 10},
		"stdlib_math_big.dart":       {0, 0, 0, 0, 0, 0},
		"stdlib_time.dart":           {0, 0, 0, 0, 0, 0},
		"testsource.dart":            {2, 8, 6, 2, 2, 38},
		"testsource_subpackage.dart": {1, 1, 1, 1, 1, 9},
		"cmd/test/out.dart":          {0, 2, 1, 0, 0, 8},
		"cmd/test/predefined.dart":   {0, 0, 1, 0, 0, 4},
		"cmd/test/test.dart":         {1, 2, 0, 0, 0, 4},
	}
	for _, path := range sampleFiles {
		key := filepath.Base(path)
		if strings.Contains(path, "/cmd/test/") {
			key = "cmd/test/" + key
		}
		t.Run(key, func(t *testing.T) {
			f := mustParse(t, key, readSample(t, path))
			if u := allUnknown(f); len(u) != 0 {
				t.Errorf("unknown chunks: %q", u)
			}
			got := [6]int{len(f.Imports), len(f.Classes), len(f.Typedefs), len(f.Enums), len(f.Extensions), len(f.Functions)}
			if got != want[key] {
				t.Errorf("item counts (imports, classes, typedefs, enums, extensions, functions) = %v, want %v", got, want[key])
			}
			// every struct class has a constructor matching its fields
			for _, c := range f.Classes {
				if c.Abstract {
					if len(c.Fields) != 0 || c.Ctor != nil || len(c.Methods) != 0 {
						t.Errorf("abstract class %s is not empty", c.Name)
					}
					continue
				}
				fieldNames := names(c.Fields, func(f *Field) string { return f.Name })
				if !reflect.DeepEqual(fieldNames, c.CtorParams) {
					t.Errorf("class %s: fields %v, ctor params %v", c.Name, fieldNames, c.CtorParams)
				}
				if c.Ctor == nil || !c.Ctor.Const {
					t.Errorf("class %s: const constructor expected, got %+v", c.Name, c.Ctor)
				}
				if len(c.Methods) != 1 || c.Methods[0].Name != "toString" || c.Methods[0].ReturnType != "String" {
					t.Errorf("class %s: methods %v", c.Name, names(c.Methods, functionName))
				}
			}
		})
	}
}

func TestSampleTestsourceModel(t *testing.T) {
	f := mustParse(t, "testsource.dart", readSample(t, "/repo/generator/dart/test/testsource.dart"))

	if want := []string{"predefined.dart", "testsource_subpackage.dart"}; !reflect.DeepEqual(f.Imports, want) {
		t.Errorf("imports %v", f.Imports)
	}
	wantClasses := []string{"ComplexStruct", "ConcretType1", "ConcretType2", "ItfType", "ItfType2", "RecursiveType", "StructWithExternalRef", "WithOpaque"}
	if got := names(f.Classes, className); !reflect.DeepEqual(got, wantClasses) {
		t.Errorf("classes %v", got)
	}
	wantTypedefs := []string{"Basic1=int", "Basic2=bool", "Basic3=double", "Basic4=String", "ItfList=List<ItfType>", "MyDate=DateTime"}
	if got := names(f.Typedefs, typedefName); !reflect.DeepEqual(got, wantTypedefs) {
		t.Errorf("typedefs %v", got)
	}
	if got := names(f.Enums, enumName); !reflect.DeepEqual(got, []string{"EnumInt", "EnumUInt"}) {
		t.Errorf("enums %v", got)
	}
	if got := f.Enums[0].Values; !reflect.DeepEqual(got, []string{"ai", "bi", "ci", "di"}) {
		t.Errorf("EnumInt values %v", got)
	}
	if got := names(f.Extensions, extName); !reflect.DeepEqual(got, []string{"_EnumIntExt on EnumInt", "_EnumUIntExt on EnumUInt"}) {
		t.Errorf("extensions %v", got)
	}

	cs := f.Classes[0]
	type tf struct{ typ, name string }
	wantFields := []tf{
		{"Map<int,int>", "with_tag"}, {"DateTime", "time"}, {"String", "b"}, {"ItfType", "value"}, {"ItfList", "l"},
		{"int", "a"}, {"EnumInt", "e"}, {"EnumUInt", "e2"}, {"MyDate", "date"}, {"List<List<bool>>", "f"},
		{"StructWithComment", "imported"}, {"Map<EnumInt,bool>", "enumMap"},
	}
	if len(cs.Fields) != len(wantFields) {
		t.Fatalf("ComplexStruct has %d fields", len(cs.Fields))
	}
	for i, w := range wantFields {
		got := cs.Fields[i]
		if got.Type != w.typ || got.Name != w.name || !got.Final || got.HasInit || got.Late {
			t.Errorf("field %d = %+v, want %v", i, *got, w)
		}
	}
	if cs.Line != 19 || cs.Abstract || cs.Extends != "" || len(cs.Implements) != 0 {
		t.Errorf("ComplexStruct header: %+v", cs)
	}
	for _, p := range cs.Ctor.Params {
		if !p.This || p.Named || p.Optional || p.Type != "" {
			t.Errorf("ctor param %+v", p)
		}
	}

	c1 := f.Classes[1]
	if !reflect.DeepEqual(c1.Implements, []string{"ItfType", "ItfType2"}) {
		t.Errorf("ConcretType1 implements %v", c1.Implements)
	}
	itf := f.Classes[3]
	if !itf.Abstract || !reflect.DeepEqual(itf.Modifiers, []string{"abstract"}) || itf.Ctor != nil || itf.CtorParams != nil {
		t.Errorf("ItfType %+v", itf)
	}

	ext := f.Extensions[0]
	wantLits := []Lit{{Kind: "int", Text: "0"}, {Kind: "int", Text: "1"}, {Kind: "int", Text: "2"}, {Kind: "int", Text: "4"}}
	if !reflect.DeepEqual(ext.ConstLists, map[string][]Lit{"_values": wantLits}) {
		t.Errorf("const lists %v", ext.ConstLists)
	}
	if len(ext.Methods) != 2 {
		t.Fatalf("extension methods %v", names(ext.Methods, functionName))
	}
	from, to := ext.Methods[0], ext.Methods[1]
	if from.Name != "fromValue" || !from.Static || from.ReturnType != "EnumInt" || !reflect.DeepEqual(from.Params, []Param{{Type: "int", Name: "s"}}) {
		t.Errorf("fromValue: %s", funcText(from))
	}
	if got := bodyText(from.Body); got != "return EnumInt . values [ _values . indexOf ( s ) ] ;" {
		t.Errorf("fromValue body: %s", got)
	}
	if to.Name != "toValue" || to.Static || to.ReturnType != "int" || len(to.Params) != 0 || bodyText(to.Body) != "return _values [ index ] ;" {
		t.Errorf("toValue: %s", funcText(to))
	}
	if len(f.Extensions[1].ConstLists) != 0 {
		t.Errorf("iota enum has const lists: %v", f.Extensions[1].ConstLists)
	}
	if !strings.HasPrefix(bodyText(ext.Body), "static const _values = [ 0 , 1 , 2 , 4 ] ; static EnumInt fromValue") {
		t.Errorf("extension body: %s", bodyText(ext.Body))
	}

	byName := map[string]*Function{}
	for _, fn := range f.Functions {
		byName[fn.Name] = fn
	}
	fn := byName["dictEnumIntToBoolFromJson"]
	if fn == nil || fn.ReturnType != "Map<EnumInt,bool>" || fn.Arrow || !reflect.DeepEqual(fn.Params, []Param{{Type: "dynamic", Name: "json"}}) {
		t.Errorf("dictEnumIntToBoolFromJson: %+v", fn)
	}
	fn = byName["listListBoolToJson"]
	if fn == nil || fn.ReturnType != "List<dynamic>" || !reflect.DeepEqual(fn.Params, []Param{{Type: "List<List<bool>>", Name: "item"}}) {
		t.Errorf("listListBoolToJson: %+v", fn)
	}
	fn = byName["enumIntFromJson"]
	if fn == nil || !fn.Arrow || bodyText(fn.Body) != "_EnumIntExt . fromValue ( json as int )" {
		t.Errorf("enumIntFromJson: %+v", fn)
	}
	if fn.Line != 146 {
		t.Errorf("enumIntFromJson at line %d", fn.Line)
	}
}

func TestSampleGenTestMain(t *testing.T) {
	f := mustParse(t, "gen_test.dart", readSample(t, "/repo/generator/dart/test/gen_test.dart"))
	if !reflect.DeepEqual(f.Imports, []string{"dart:convert", "testsource.dart", "testsource_subpackage.dart"}) {
		t.Errorf("imports %v", f.Imports)
	}
	m := f.Functions[0]
	if m.Name != "main" || m.ReturnType != "" || !reflect.DeepEqual(m.Params, []Param{{Type: "List<String>", Name: "args"}}) {
		t.Errorf("main: %s", funcText(m))
	}
}

// The raw (unformatted) template output must give exactly the same model as
// the sample formatted by `dart format`.
func TestRawTemplatesMatchFormattedSample(t *testing.T) {
	const pkg = "github.com/benoitkugler/gomacro/testutils/testsource/subpackage."
	raw := rawFile([]string{"predefined.dart"},
		rawEnum(pkg+"Enum", "Enum", []rawMember{{"A", "", "0"}, {"B", "", "1"}, {"C", "", "2"}}, true, true),
		rawNamed(pkg+"NamedSlice", "NamedSlice", "List<Enum>", "listEnum", true),
		rawStruct(pkg+"StructWithComment", "StructWithComment", nil, []rawField{{"A", "int", "int", false}}),
		rawArray("List<Enum>", "listEnum", "enum"),
	)
	rawModel := mustParse(t, "x.dart", raw)
	sample := mustParse(t, "x.dart", readSample(t, "/repo/generator/dart/test/testsource_subpackage.dart"))
	if got, want := summary(rawModel), summary(sample); got != want {
		t.Errorf("raw template model differs from formatted sample\n--- raw\n%s\n--- sample\n%s", got, want)
	}
	if u := allUnknown(rawModel); len(u) != 0 {
		t.Errorf("unknown: %q", u)
	}
}

func TestRawTemplatesMatchFormattedTestsource(t *testing.T) {
	const pkg = "github.com/benoitkugler/gomacro/testutils/testsource."
	enumMembers := func(names ...string) []rawMember {
		var out []rawMember
		comments := []string{"sdsd", "sdsdB", "sdsdC", "sdsdD"}
		values := []string{"0", "1", "2", "4"}
		for i, n := range names {
			out = append(out, rawMember{n, comments[i], values[i]})
		}
		return out
	}
	raw := rawFile([]string{"predefined.dart", "testsource_subpackage.dart"},
		rawNamed(pkg+"Basic1", "Basic1", "int", "", false),
		rawNamed(pkg+"Basic2", "Basic2", "bool", "", false),
		rawNamed(pkg+"Basic3", "Basic3", "double", "", false),
		rawNamed(pkg+"Basic4", "Basic4", "String", "", false),
		rawStruct(pkg+"ComplexStruct", "ComplexStruct", nil, []rawField{
			{"with_tag", "Map<int,int>", "dictIntToInt", false},
			{"Time", "DateTime", "dateTime", false},
			{"B", "String", "string", false},
			{"Value", "ItfType", "itfType", false},
			{"L", "ItfList", "itfList", false},
			{"A", "int", "int", false},
			{"E", "EnumInt", "enumInt", false},
			{"E2", "EnumUInt", "enumUInt", false},
			{"Date", "MyDate", "dateTime", false},
			{"F", "List<List<bool>>", "listListBool", false},
			{"Imported", "StructWithComment", "structWithComment", false},
			{"EnumMap", "Map<EnumInt,bool>", "dictEnumIntToBool", false},
		}),
		rawStruct(pkg+"ConcretType1", "ConcretType1", []string{"ItfType", "ItfType2"}, []rawField{
			{"List2", "List<int>", "listInt", false}, {"V", "int", "int", false},
		}),
		rawStruct(pkg+"ConcretType2", "ConcretType2", []string{"ItfType"}, []rawField{{"D", "double", "double", false}}),
		rawEnum(pkg+"EnumInt", "EnumInt", enumMembers("Ai", "Bi", "Ci", "Di"), false, true),
		rawEnum(pkg+"EnumUInt", "EnumUInt", enumMembers("A", "B", "C", "D"), true, true),
		rawNamed(pkg+"ItfList", "ItfList", "List<ItfType>", "listItfType", true),
		rawUnion(pkg+"ItfType", "ItfType", []rawUnionMember{
			{"ConcretType1", "ConcretType1", "concretType1"}, {"ConcretType2", "ConcretType2", "concretType2"},
		}),
		rawUnion(pkg+"ItfType2", "ItfType2", []rawUnionMember{{"ConcretType1", "ConcretType1", "concretType1"}}),
		rawNamed(pkg+"MyDate", "MyDate", "DateTime", "", false),
		rawStruct(pkg+"RecursiveType", "RecursiveType", nil, []rawField{{"Children", "List<RecursiveType>", "listRecursiveType", false}}),
		rawStruct(pkg+"StructWithExternalRef", "StructWithExternalRef", nil, []rawField{
			{"Field1", "NamedSlice", "namedSlice", false}, {"Field2", "NamedSlice", "namedSlice", false}, {"Field3", "int", "int", false},
		}),
		rawStruct(pkg+"WithOpaque", "WithOpaque", nil, []rawField{
			{"F1", "dynamic", "x", true}, {"F2", "dynamic", "x", true}, {"F3", "StructWithExternalRef", "structWithExternalRef", false},
		}),
		rawMap("Map<EnumInt,bool>", "dictEnumIntToBool", "EnumInt", "enumInt", "bool"),
		rawMap("Map<int,int>", "dictIntToInt", "int", "int", "int"),
		rawArray("List<bool>", "listBool", "bool"),
		rawArray("List<int>", "listInt", "int"),
		rawArray("List<ItfType>", "listItfType", "itfType"),
		rawArray("List<List<bool>>", "listListBool", "listBool"),
		rawArray("List<RecursiveType>", "listRecursiveType", "recursiveType"),
	)
	rawModel := mustParse(t, "x.dart", raw)
	sample := mustParse(t, "x.dart", readSample(t, "/repo/generator/dart/test/testsource.dart"))
	got, want := strings.Split(summary(rawModel), "\n"), strings.Split(summary(sample), "\n")
	for i := 0; i < len(got) || i < len(want); i++ {
		var g, w string
		if i < len(got) {
			g = got[i]
		}
		if i < len(want) {
			w = want[i]
		}
		if g != w {
			t.Fatalf("first difference at summary line %d\n raw:    %s\n sample: %s", i, g, w)
		}
	}
}

func TestRawPredefined(t *testing.T) {
	raw := rawFile(nil, rawString, rawTime, rawBoolInt("bool", "bool"), rawFloat, rawBoolInt("int", "int"))
	rawModel := mustParse(t, "x.dart", raw)
	sample := mustParse(t, "x.dart", readSample(t, "/repo/generator/dart/test/predefined.dart"))
	if got, want := summary(rawModel), summary(sample); got != want {
		t.Errorf("raw template model differs from formatted sample\n--- raw\n%s\n--- sample\n%s", got, want)
	}
}

// Declarations the templates can produce for unusual inputs.
func TestRawTemplateEdgeCases(t *testing.T) {
	t.Run("struct without exported fields", func(t *testing.T) {
		f := mustParse(t, "x.dart", rawFile(nil, rawStruct("p.Empty", "Empty", nil, nil)))
		if u := allUnknown(f); len(u) != 0 {
			t.Fatalf("unknown %q", u)
		}
		c := f.Classes[0]
		if len(c.Fields) != 0 || c.Ctor == nil || c.CtorParams == nil || len(c.CtorParams) != 0 {
			t.Errorf("class %+v", c)
		}
		ctor, reads := f.Functions[0].JSONReads()
		if ctor != "Empty" || len(reads) != 0 {
			t.Errorf("reads %q %v", ctor, reads)
		}
		if w := f.Functions[1].JSONWrites(); len(w) != 0 {
			t.Errorf("writes %v", w)
		}
	})
	t.Run("string enum", func(t *testing.T) {
		src := rawEnum("p.Color", "Color", []rawMember{{"Red", "the red", `"red"`}, {"Color_blue", "", `"bl\"ue"`}, {"Neg", "", "-3"}}, false, false)
		f := mustParse(t, "x.dart", rawFile(nil, src))
		if u := allUnknown(f); len(u) != 0 {
			t.Fatalf("unknown %q", u)
		}
		if got := f.Enums[0].Values; !reflect.DeepEqual(got, []string{"red", "blue", "neg"}) {
			t.Errorf("values %v", got)
		}
		want := []Lit{{Kind: "string", Text: "red"}, {Kind: "string", Text: `bl"ue`}, {Kind: "int", Text: "-3"}}
		if got := f.Extensions[0].ConstLists["_values"]; !reflect.DeepEqual(got, want) {
			t.Errorf("lits %v", got)
		}
		if got := names(f.Functions, functionName); !reflect.DeepEqual(got, []string{"colorLabel", "colorFromJson", "colorToJson"}) {
			t.Errorf("functions %v", got)
		}
	})
	t.Run("enum without exported members", func(t *testing.T) {
		f := mustParse(t, "x.dart", rawFile(nil, rawEnum("p.E", "E", nil, false, true)))
		if u := allUnknown(f); len(u) != 0 {
			t.Fatalf("unknown %q", u)
		}
		if len(f.Enums) != 1 || len(f.Enums[0].Values) != 0 {
			t.Errorf("enums %+v", f.Enums[0])
		}
		if got := f.Extensions[0].ConstLists["_values"]; got == nil || len(got) != 0 {
			t.Errorf("lits %#v", got)
		}
	})
	t.Run("union without members", func(t *testing.T) {
		// `strings.Join(casesTo, "")` is empty: the ToJson body starts with `else`
		f := mustParse(t, "x.dart", rawFile(nil, rawUnion("p.U", "U", nil)))
		if u := allUnknown(f); len(u) != 0 {
			t.Fatalf("unknown %q", u)
		}
		cases, keys, def := f.Functions[0].UnionCases()
		if len(cases) != 0 || !reflect.DeepEqual(keys, []string{"Kind", "Data"}) || !def {
			t.Errorf("cases %v %v %v", cases, keys, def)
		}
		w, elseThrow := f.Functions[1].UnionWritesInfo()
		if len(w) != 0 || !elseThrow {
			t.Errorf("writes %v %v", w, elseThrow)
		}
	})
	t.Run("key with tag options and dollar", func(t *testing.T) {
		// StructField.JSONName keeps `,omitempty`; lowerFirst gives the Dart name `n,omitempty`
		src := rawStruct("p.S", "S", nil, []rawField{{"n,omitempty", "int", "int", false}, {"pri$ce", "int", "int", false}})
		f := mustParse(t, "x.dart", rawFile(nil, src))
		// the class is damaged (`final int n,omitempty;`) and must not be
		// silently accepted with the wrong fields
		if len(allUnknown(f)) == 0 {
			t.Errorf("damaged class accepted silently:\n%s", summary(f))
		}
		var from *Function
		for _, fn := range f.Functions {
			if fn.Name == "sFromJson" {
				from = fn
			}
		}
		if from == nil {
			t.Fatalf("sFromJson not found:\n%s", summary(f))
		}
		_, reads := from.JSONReads()
		if len(reads) != 2 || reads[0].Key != "n,omitempty" || reads[0].Interp || reads[1].Key != "pri$ce" || !reads[1].Interp {
			t.Errorf("reads %+v", reads)
		}
	})
}

func TestLayoutAndStyleTolerance(t *testing.T) {
	base := `class A implements I,J{final Map<String,List<int>> m;final int b;const A(this.m,this.b);@override String toString(){return "A($m, $b)";}}`
	variants := map[string]string{
		"spread": `
			/* block */ class   A
			   implements   I ,
			   J
			{
				/// doc
				final Map < String , List < int > >   m ;
				// c
				final int
				   b
				;

				const A ( this . m , this . b ) ;

				@override
				String
				toString ( ) {
					return "A($m, $b)" ;
				}
			}`,
		"crlf": strings.ReplaceAll("class A implements I, J {\n final Map<String, List<int>> m;\n final int b;\n const A(this.m, this.b);\n @override\n String toString() {\n return \"A($m, $b)\";\n }\n }\n", "\n", "\r\n"),
	}
	want := summary(mustParse(t, "a.dart", base))
	if !strings.Contains(want, "field Map<String,List<int>> m final=true") || !strings.Contains(want, "implements=[I J]") {
		t.Fatalf("base model:\n%s", want)
	}
	for name, src := range variants {
		if got := summary(mustParse(t, "a.dart", src)); got != want {
			t.Errorf("%s: model differs\n got:\n%s\nwant:\n%s", name, got, want)
		}
	}
}

func TestClassForms(t *testing.T) {
	tests := []struct {
		name string
		src  string
		want string // summary
	}{
		{"abstract empty", `abstract class U {}`, "class U mods=[abstract] abstract=true extends=\"\" with=[] implements=[]\n"},
		{"sealed", `sealed class U {}`, "class U mods=[sealed] abstract=false extends=\"\" with=[] implements=[]\n"},
		{"abstract interface", `abstract interface class U {}`, "class U mods=[abstract interface] abstract=true extends=\"\" with=[] implements=[]\n"},
		{"extends with implements", `class A extends B<int> with M, N implements I {}`,
			"class A mods=[] abstract=false extends=\"B<int>\" with=[M N] implements=[I]\n"},
		{"non const ctor", `class A { final int a; A(this.a); }`,
			"class A mods=[] abstract=false extends=\"\" with=[] implements=[]\n  field int a final=true late=false init=false\n  ctor const=false (this.a) names=[a]\n"},
		{"named params", `class A { final int a; final int? b; const A({required this.a, this.b}); }`,
			"class A mods=[] abstract=false extends=\"\" with=[] implements=[]\n  field int a final=true late=false init=false\n  field int? b final=true late=false init=false\n  ctor const=true (required {this.a}, {this.b}) names=[a b]\n"},
		{"optional positional with default", `class A { final int a; final int b; const A(this.a, [this.b = 3]); }`,
			"class A mods=[] abstract=false extends=\"\" with=[] implements=[]\n  field int a final=true late=false init=false\n  field int b final=true late=false init=false\n  ctor const=true (this.a, [this.b]=?) names=[a b]\n"},
		{"trailing comma in ctor", `class A { final int a; const A(this.a,); }`,
			"class A mods=[] abstract=false extends=\"\" with=[] implements=[]\n  field int a final=true late=false init=false\n  ctor const=true (this.a) names=[a]\n"},
		{"non this param and initializer list", `class A { final int a; A(int x) : a = x + f(1), super(); }`,
			"class A mods=[] abstract=false extends=\"\" with=[] implements=[]\n  field int a final=true late=false init=false\n  ctor const=false (int x) names=[x]\n"},
		{"ctor with body", `class A { int a = 0; A(int x) { a = x; } int get() { return a; } }`,
			"class A mods=[] abstract=false extends=\"\" with=[] implements=[]\n  field int a final=false late=false init=true\n  ctor const=false (int x) names=[x]\n  method int get() { return a ; }\n"},
		{"late and var fields", `class A { late final List<int> a; var b = 1; final c = "x"; }`,
			"class A mods=[] abstract=false extends=\"\" with=[] implements=[]\n  field List<int> a final=true late=true init=false\n  field  b final=false late=false init=true\n  field  c final=true late=false init=true\n"},
		{"static const list in class", `class A { static const List<int> vals = const <int>[1, 2,]; }`,
			"class A mods=[] abstract=false extends=\"\" with=[] implements=[]\n  const vals = [int:1, int:2]\n"},
		{"annotation with args", `class A { @JsonKey(name: "x") final int a; @deprecated @override String toString() => "A"; }`,
			"class A mods=[] abstract=false extends=\"\" with=[] implements=[]\n  field int a final=true late=false init=false\n  method String toString() => \"A\"\n"},
		{"function typed field", `class A { final void Function(int, String)? cb; final Function f; }`,
			"class A mods=[] abstract=false extends=\"\" with=[] implements=[]\n  field voidFunction(int,String)? cb final=true late=false init=false\n  field Function f final=true late=false init=false\n"},
		{"members not understood", `class A { A.named(int x); factory A.f() => A.named(1); int get x => 1; set y(int v) {} static int count = 0; bool operator ==(Object o) => true; static const k = 3; final int a; }`,
			"class A mods=[] abstract=false extends=\"\" with=[] implements=[]\n  field int a final=true late=false init=false\n" +
				"  unknown A.named(int x);\n  unknown factory A.f() => A.named(1);\n  unknown int get x => 1;\n  unknown set y(int v) {}\n" +
				"  unknown static int count = 0;\n  unknown bool operator ==(Object o) => true;\n  unknown static const k = 3;\n"},
		{"two unnamed ctors", `class A { A(); A(int x); }`,
			"class A mods=[] abstract=false extends=\"\" with=[] implements=[]\n  ctor const=false () names=[]\n  unknown A(int x);\n"},
		{"damaged field", `class S { final int n,omitempty; const S(this.n,omitempty); }`,
			"class S mods=[] abstract=false extends=\"\" with=[] implements=[]\n  ctor const=true (this.n, omitempty) names=[n omitempty]\n  unknown final int n,omitempty;\n"},
	}
	for _, tc := range tests {
		t.Run(tc.name, func(t *testing.T) {
			f := mustParse(t, "a.dart", tc.src)
			if got := summary(f); got != tc.want {
				t.Errorf("summary\n got: %q\nwant: %q", got, tc.want)
			}
		})
	}
}

func TestTopLevelForms(t *testing.T) {
	tests := []struct {
		name string
		src  string
		want string
	}{
		{"typedef generic target", `typedef M = Map<String, List<Foo>>;`, "typedef M = Map<String,List<Foo>>\n"},
		{"typedef nullable and prefixed", `typedef M = p.Foo?;`, "typedef M = p.Foo?\n"},
		{"typedef no spaces", `typedef JSON=Map<String,dynamic>;// c`, "typedef JSON = Map<String,dynamic>\n"},
		{"enum multi line trailing comma", "enum  E {\n a,\n b ,\n}", "enum E [a b]\n"},
		{"enum annotated value", "enum E { @deprecated a, b }", "enum E [a b]\n"},
		{"enum empty", "enum E { }", "enum E []\n"},
		{"extension empty", "extension _X on List<int> {}", "extension _X on List<int> body=\n"},
		{"extension string list", `extension _X on E { static const _values = ["a", 'b', "c$d", -1.5, true, null, 1 + 2]; }`,
			"extension _X on E body=static const _values = [ \"a\" , \"b\" , \"c$d\" , - 1.5 , true , null , 1 + 2 ] ;\n" +
				"  const _values = [string:a, string:b, string:c$d, double:-1.5, bool:true, other:null, other:1 + 2]\n"},
		{"extension with field", `extension _X on E { final int a; static int b = 1; int get c => 1; }`,
			"extension _X on E body=final int a ; static int b = 1 ; int get c => 1 ;\n  unknown static int b = 1;\n  unknown int get c => 1;\n  unknown final int a;\n"},
		{"function block", `int f(int a, String b) { return a; }`, "func int f(int a, String b) { return a ; }\n"},
		{"function arrow", `int f(int a) => g(a, {1: 2});`, "func int f(int a) => g ( a , { 1 : 2 } )\n"},
		{"function no return type", `main() {}`, "func  main() {  }\n"},
		{"function void async", `Future<void> f() async { await g(); }`, "func Future<void> f() async{ await g ( ) ; }\n"},
		{"function generator", `Stream<int> f() async* { yield 1; }`, "func Stream<int> f() async*{ yield 1 ; }\n"},
		{"function named and optional params", `void f(int a, {required String b, int c = 1}) {}`,
			"func void f(int a, required {String b}, {int c}=?) {  }\n"},
		{"function optional positional", `void f([int? a, b = const [1, 2]]) {}`, "func void f([int? a], [b]=?) {  }\n"},
		{"function untyped params", `f(a, b) => a;`, "func  f(a, b) => a\n"},
		{"function with function type param", `void f(int Function(int) cb, final int x) {}`, "func void f(intFunction(int) cb, int x) {  }\n"},
		{"nullable return", `Foo? f() => null;`, "func Foo? f() => null\n"},
		{"arrow with operator words", `Future<int> f(x) async => await g(x as int) is! String ? const A() : throw new B("a" "b");`,
			"func Future<int> f(x) async=> await g ( x as int ) is ! String ? const A ( ) : throw new B ( \"a\" \"b\" )\n"},
		{"arrow returning lambdas", `f() => (x) => x + 1; g() => (x) { return [x]; }; h() => {1: 2}.keys;`,
			"func  f() => ( x ) => x + 1\nfunc  g() => ( x ) { return [ x ] ; }\nfunc  h() => { 1 : 2 } . keys\n"},
		{"import double quotes", `import "a.dart";import'b.dart';`, "import a.dart\nimport b.dart\n"},
		{"import with prefix", `import 'a.dart' as a; import 'b.dart' show B;`,
			"import a.dart\nimport b.dart\nunknown import 'a.dart' as a;\nunknown import 'b.dart' show B;\n"},
		{"annotated top-level", "@pragma('vm:entry-point')\nvoid f() {}", "func void f() {  }\n"},
	}
	for _, tc := range tests {
		t.Run(tc.name, func(t *testing.T) {
			f := mustParse(t, "a.dart", tc.src)
			if got := summary(f); got != tc.want {
				t.Errorf("summary\n got: %q\nwant: %q", got, tc.want)
			}
		})
	}
}

func TestUnknownTopLevel(t *testing.T) {
	tests := []struct {
		name string
		src  string
		want []string // File.Unknown
		rest string   // summary of the rest, to check resynchronisation
	}{
		{"variables", `const x = 1; final y = {1: 2}; var z = f(1); int w = 0; void g() {}`,
			[]string{"const x = 1;", "final y = {1: 2};", "var z = f(1);", "int w = 0;"}, "func void g() {  }\n"},
		{"directives", `library foo; export 'a.dart'; part 'b.dart'; typedef A = int;`,
			[]string{"library foo;", "export 'a.dart';", "part 'b.dart';"}, "typedef A = int\n"},
		{"mixin", `mixin M on A { void f() {} } class B {}`, []string{"mixin M on A { void f() {} }"},
			"class B mods=[] abstract=false extends=\"\" with=[] implements=[]\n"},
		{"generic class", `class A<T> { final T a; } class B {}`, []string{"class A<T> { final T a; }"},
			"class B mods=[] abstract=false extends=\"\" with=[] implements=[]\n"},
		{"generic function", `T f<T>(T x) => x; int g() => 1;`, []string{"T f<T>(T x) => x;"}, "func int g() => 1\n"},
		{"old style typedef", `typedef int F(int a); typedef G<T> = List<T>;`, []string{"typedef int F(int a);", "typedef G<T> = List<T>;"}, ""},
		{"getter", `int get x => 1; set y(int v) {} int z() => 2;`, []string{"int get x => 1;", "set y(int v) {}"}, "func int z() => 2\n"},
		{"external", `external int f(); int g() => 1;`, []string{"external int f();"}, "func int g() => 1\n"},
		{"enhanced enum", `enum E { a(1), b(2); final int v; const E(this.v); } enum F { x }`,
			[]string{"enum E { a(1), b(2); final int v; const E(this.v); }"}, "enum F [x]\n"},
		{"unnamed extension", `extension on int { int f() => 1; } enum F { x }`, []string{"extension on int { int f() => 1; }"}, "enum F [x]\n"},
		{"stray tokens", `; foo bar } `, nil, ""}, // replaced below
		{"statement at top level", `x = 3; f(1); int g() => 1;`, []string{"x = 3;", "f(1);"}, "func int g() => 1\n"},
		{"function without body", `int f(); int g() => 1;`, []string{"int f();"}, "func int g() => 1\n"},
		{"function typed parameter", `void f(int cb(int x)) {} int g() => 1;`, []string{"void f(int cb(int x)) {}"}, "func int g() => 1\n"},
		{"dangling annotation", `void g() {} @override`, []string{"@override"}, "func void g() {  }\n"},
		{"map literal continuing", `final m = {1: 2}.keys; final n = {1} as Set; void g() {}`, []string{"final m = {1: 2}.keys;", "final n = {1} as Set;"}, "func void g() {  }\n"},
		{"missing semicolon after arrow body", `int f() => g(1) int h() => 2; int k() => 3;`, []string{"int f() => g(1) int h() => 2;"}, "func int k() => 3\n"},
		{"missing semicolon before typedef", `int f() => x typedef A = int; int k() => 3;`, []string{"int f() => x typedef A = int;"}, "func int k() => 3\n"},
		{"missing semicolon after typedef", `typedef A = int int k() => 3;`, []string{"typedef A = int int k() => 3;"}, ""},
		{"long chunk truncated", `var s = "` + strings.Repeat("é", 200) + `";`, []string{`var s = "` + strings.Repeat("é", 71)}, ""},
	}
	for _, tc := range tests {
		if tc.name == "stray tokens" {
			continue // unbalanced: covered by TestLexErrors
		}
		t.Run(tc.name, func(t *testing.T) {
			f := mustParse(t, "a.dart", tc.src)
			if !reflect.DeepEqual(f.Unknown, tc.want) {
				t.Errorf("unknown\n got: %q\nwant: %q", f.Unknown, tc.want)
			}
			f.Unknown = nil
			if got := summary(f); got != tc.rest {
				t.Errorf("rest\n got: %q\nwant: %q", got, tc.rest)
			}
		})
	}
}

func TestUnknownPunctuationAtTopLevel(t *testing.T) {
	f := mustParse(t, "a.dart", `; , int g() => 1; é`)
	if want := []string{";", ",", "é"}; !reflect.DeepEqual(f.Unknown, want) {
		t.Errorf("unknown %q, want %q", f.Unknown, want)
	}
	if len(f.Functions) != 1 {
		t.Errorf("functions %v", names(f.Functions, functionName))
	}
}

func TestParseType(t *testing.T) {
	tests := []struct {
		src  string
		want string
		rest string // text of the token following the type
		ok   bool
	}{
		{"int x", "int", "x", true},
		{"List<int> x", "List<int>", "x", true},
		{"List < Map < String , int > > x", "List<Map<String,int>>", "x", true},
		{"Map<String, List<Foo>>? x", "Map<String,List<Foo>>?", "x", true},
		{"a.B<c.D> x", "a.B<c.D>", "x", true},
		{"void Function(int a, {String b}) x", "voidFunction(inta,{Stringb})", "x", true},
		{"Function(int) x", "Function(int)", "x", true},
		{"Function x", "Function", "x", true},
		{"int Function()? Function(int) x", "intFunction()?Function(int)", "x", true},
		{"List<int x", "", "", false},
		{"List<> x", "", "", false},
		{"return x", "", "", false},
		{"final x", "", "", false},
		{"3", "", "", false},
		{"foo(", "foo", "(", true},
	}
	for _, tc := range tests {
		toks, err := Lex("t", tc.src)
		if err != nil {
			// `foo(` is deliberately unbalanced: lex without the balance check
			lx := &lexer{name: "t", src: tc.src, line: 1}
			if err := lx.run(); err != nil {
				t.Fatal(err)
			}
			toks = lx.toks
		}
		got, next, ok := parseType(toks, 0)
		if ok != tc.ok || got != tc.want {
			t.Errorf("parseType(%q) = %q, %v; want %q, %v", tc.src, got, ok, tc.want, tc.ok)
			continue
		}
		if ok && toks[next].Text != tc.rest {
			t.Errorf("parseType(%q): next token %q, want %q", tc.src, toks[next].Text, tc.rest)
		}
	}
}
