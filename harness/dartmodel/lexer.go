// Package dartmodel extracts, at token level, the relations of the Dart files
// emitted by gomacro/generator/dart that matter for JSON wire compatibility
// and for cross-file linking. It is not a Dart parser: it recognises the
// top-level items and the routine shapes of the generator templates, is
// independent of layout, and reports everything it cannot classify
// (File.Unknown, Class.Unknown, Extension.Unknown) instead of skipping it.
package dartmodel

import (
	"fmt"
	"strings"
	"unicode/utf8"
)

// Token kinds.
const (
	KindIdent  = "ident"
	KindString = "string"
	KindNumber = "number"
	KindPunct  = "punct"
)

// Token is one lexical element. Comments and white space produce no token.
type Token struct {
	Kind string // ident, string, number, punct
	// Text is the source text, except for string tokens where it is the
	// unquoted, unescaped content (interpolations are kept verbatim: `$a`, `${a.b}`).
	Text string
	Line int // 1-based
	// Raw is the exact source text (for strings: with prefix, quotes and escapes).
	Raw string
	// Interp is true for string tokens containing at least one unescaped `$name`
	// or `${...}` interpolation (never true for raw strings).
	Interp bool
	// Pos and End are byte offsets into the source: src[Pos:End] == Raw.
	Pos, End int
}

func (t Token) punct(text string) bool { return t.Kind == KindPunct && t.Text == text }
func (t Token) ident(text string) bool { return t.Kind == KindIdent && t.Text == text }

// LexError is a lexical problem.
type LexError struct {
	File string
	Line int
	Msg  string
}

func (e *LexError) Error() string { return fmt.Sprintf("%s:%d: %s", e.File, e.Line, e.Msg) }

func isIdentStart(c byte) bool {
	return c == '_' || c == '$' || (c >= 'a' && c <= 'z') || (c >= 'A' && c <= 'Z')
}
func isDigit(c byte) bool     { return c >= '0' && c <= '9' }
func isIdentPart(c byte) bool { return isIdentStart(c) || isDigit(c) }
func isHex(c byte) bool {
	return isDigit(c) || (c >= 'a' && c <= 'f') || (c >= 'A' && c <= 'F')
}

// multi-character punctuation, longest first. `>>`, `>>>` and `>>=` are
// deliberately absent so that nested generics `List<List<int>>` close with
// two separate `>` tokens.
var multiPunct = []string{
	"...?", "??=", "<<=", "~/=", "&&=", "||=",
	"...", "=>", "==", "!=", "<=", ">=", "&&", "||", "??", "?.", "..",
	"++", "--", "+=", "-=", "*=", "/=", "%=", "&=", "|=", "^=", "<<", "~/",
}

type lexer struct {
	name string
	src  string
	pos  int
	line int
	toks []Token
}

func (lx *lexer) errf(line int, format string, args ...any) error {
	return &LexError{File: lx.name, Line: line, Msg: fmt.Sprintf(format, args...)}
}

// Lex splits src into tokens. It fails for unterminated strings and comments
// and for unbalanced (), [], {}.
func Lex(name, src string) ([]Token, error) {
	lx := &lexer{name: name, src: src, line: 1}
	if err := lx.run(); err != nil {
		return lx.toks, err
	}
	if _, err := matchBrackets(name, lx.toks); err != nil {
		return lx.toks, err
	}
	return lx.toks, nil
}

func (lx *lexer) emit(kind, text string, start, line int, interp bool) {
	lx.toks = append(lx.toks, Token{
		Kind: kind, Text: text, Line: line, Raw: lx.src[start:lx.pos],
		Interp: interp, Pos: start, End: lx.pos,
	})
}

func (lx *lexer) run() error {
	src := lx.src
	for lx.pos < len(src) {
		c := src[lx.pos]
		switch {
		case c == '\n':
			lx.line++
			lx.pos++
		case c == ' ' || c == '\t' || c == '\r' || c == '\f' || c == '\v':
			lx.pos++
		case c == '/' && lx.peek(1) == '/':
			for lx.pos < len(src) && src[lx.pos] != '\n' {
				lx.pos++
			}
		case c == '/' && lx.peek(1) == '*':
			if err := lx.blockComment(); err != nil {
				return err
			}
		case c == '#' && lx.pos == 0 && lx.peek(1) == '!': // script tag
			for lx.pos < len(src) && src[lx.pos] != '\n' {
				lx.pos++
			}
		case c == '\'' || c == '"':
			if err := lx.str(lx.pos, false); err != nil {
				return err
			}
		case (c == 'r') && (lx.peek(1) == '\'' || lx.peek(1) == '"'):
			start := lx.pos
			lx.pos++
			if err := lx.str(start, true); err != nil {
				return err
			}
		case isIdentStart(c):
			start := lx.pos
			for lx.pos < len(src) && isIdentPart(src[lx.pos]) {
				lx.pos++
			}
			lx.emit(KindIdent, src[start:lx.pos], start, lx.line, false)
		case isDigit(c) || (c == '.' && isDigit(lx.peek(1))):
			lx.number()
		case c >= utf8.RuneSelf:
			// not valid outside strings/comments in Dart; keep it as one punct
			// token so that it surfaces in an Unknown chunk.
			start := lx.pos
			_, n := utf8.DecodeRuneInString(src[lx.pos:])
			lx.pos += n
			lx.emit(KindPunct, src[start:lx.pos], start, lx.line, false)
		default:
			start := lx.pos
			n := 1
			for _, p := range multiPunct {
				if strings.HasPrefix(src[lx.pos:], p) {
					n = len(p)
					break
				}
			}
			lx.pos += n
			lx.emit(KindPunct, src[start:lx.pos], start, lx.line, false)
		}
	}
	return nil
}

func (lx *lexer) peek(n int) byte {
	if lx.pos+n < len(lx.src) {
		return lx.src[lx.pos+n]
	}
	return 0
}

// blockComment skips a /* */ comment; Dart block comments nest.
func (lx *lexer) blockComment() error {
	startLine := lx.line
	depth := 0
	for lx.pos < len(lx.src) {
		switch {
		case strings.HasPrefix(lx.src[lx.pos:], "/*"):
			depth++
			lx.pos += 2
		case strings.HasPrefix(lx.src[lx.pos:], "*/"):
			depth--
			lx.pos += 2
			if depth == 0 {
				return nil
			}
		default:
			if lx.src[lx.pos] == '\n' {
				lx.line++
			}
			lx.pos++
		}
	}
	return lx.errf(startLine, "unterminated block comment")
}

func (lx *lexer) number() {
	src := lx.src
	start := lx.pos
	if src[lx.pos] == '0' && (lx.peek(1) == 'x' || lx.peek(1) == 'X') {
		lx.pos += 2
		for lx.pos < len(src) && (isHex(src[lx.pos]) || src[lx.pos] == '_') {
			lx.pos++
		}
		lx.emit(KindNumber, src[start:lx.pos], start, lx.line, false)
		return
	}
	digits := func() {
		for lx.pos < len(src) && (isDigit(src[lx.pos]) || src[lx.pos] == '_') {
			lx.pos++
		}
	}
	digits()
	if lx.pos < len(src) && src[lx.pos] == '.' && isDigit(lx.peek(1)) {
		lx.pos++
		digits()
	}
	if lx.pos < len(src) && (src[lx.pos] == 'e' || src[lx.pos] == 'E') {
		save := lx.pos
		lx.pos++
		if lx.pos < len(src) && (src[lx.pos] == '+' || src[lx.pos] == '-') {
			lx.pos++
		}
		if lx.pos < len(src) && isDigit(src[lx.pos]) {
			digits()
		} else {
			lx.pos = save
		}
	}
	lx.emit(KindNumber, src[start:lx.pos], start, lx.line, false)
}

// str lexes a string literal whose opening quote is at lx.pos; start is the
// offset of the token (differs from lx.pos for the r prefix).
func (lx *lexer) str(start int, raw bool) error {
	src := lx.src
	startLine := lx.line
	q := src[lx.pos]
	triple := strings.HasPrefix(src[lx.pos:], string([]byte{q, q, q}))
	if triple {
		lx.pos += 3
	} else {
		lx.pos++
	}
	var sb strings.Builder
	interp := false
	for {
		if lx.pos >= len(src) {
			return lx.errf(startLine, "unterminated string literal")
		}
		c := src[lx.pos]
		switch {
		case c == q && !triple:
			lx.pos++
			lx.emit(KindString, sb.String(), start, startLine, interp)
			return nil
		case c == q && triple && strings.HasPrefix(src[lx.pos:], string([]byte{q, q, q})):
			lx.pos += 3
			lx.emit(KindString, sb.String(), start, startLine, interp)
			return nil
		case c == '\n':
			if !triple {
				return lx.errf(startLine, "unterminated string literal")
			}
			lx.line++
			sb.WriteByte(c)
			lx.pos++
		case c == '\\' && !raw:
			if err := lx.escape(&sb, startLine); err != nil {
				return err
			}
		case c == '$' && !raw:
			next := lx.peek(1)
			switch {
			case next == '{':
				interp = true
				end, err := lx.interpolation(lx.pos+1, startLine)
				if err != nil {
					return err
				}
				sb.WriteString(src[lx.pos:end])
				lx.pos = end
			case isIdentStart(next) && next != '$':
				interp = true
				sb.WriteByte(c)
				lx.pos++
			default:
				sb.WriteByte(c)
				lx.pos++
			}
		default:
			sb.WriteByte(c)
			lx.pos++
		}
	}
}

func (lx *lexer) escape(sb *strings.Builder, startLine int) error {
	src := lx.src
	if lx.pos+1 >= len(src) {
		return lx.errf(startLine, "unterminated string literal")
	}
	c := src[lx.pos+1]
	lx.pos += 2
	hex := func(n int) (rune, bool) {
		if lx.pos+n > len(src) {
			return 0, false
		}
		var v rune
		for _, h := range []byte(src[lx.pos : lx.pos+n]) {
			if !isHex(h) {
				return 0, false
			}
			v = v*16 + rune(hexVal(h))
		}
		lx.pos += n
		return v, true
	}
	switch c {
	case 'n':
		sb.WriteByte('\n')
	case 'r':
		sb.WriteByte('\r')
	case 't':
		sb.WriteByte('\t')
	case 'b':
		sb.WriteByte('\b')
	case 'f':
		sb.WriteByte('\f')
	case 'v':
		sb.WriteByte('\v')
	case 'x':
		if v, ok := hex(2); ok {
			sb.WriteRune(v)
		} else {
			sb.WriteByte('x')
		}
	case 'u':
		if lx.pos < len(src) && src[lx.pos] == '{' {
			end := strings.IndexByte(src[lx.pos:], '}')
			if end > 1 && end <= 7 {
				save := lx.pos
				lx.pos++
				if v, ok := hex(end - 1); ok {
					lx.pos++ // }
					sb.WriteRune(v)
					return nil
				}
				lx.pos = save
			}
			sb.WriteByte('u')
		} else if v, ok := hex(4); ok {
			sb.WriteRune(v)
		} else {
			sb.WriteByte('u')
		}
	case '\n':
		lx.line++
		sb.WriteByte('\n')
	default:
		// \\ \' \" \$ and any other character stand for themselves
		if c < utf8.RuneSelf {
			sb.WriteByte(c)
		} else {
			lx.pos--
			r, n := utf8.DecodeRuneInString(src[lx.pos:])
			sb.WriteRune(r)
			lx.pos += n
		}
	}
	return nil
}

func hexVal(h byte) int {
	switch {
	case h >= '0' && h <= '9':
		return int(h - '0')
	case h >= 'a' && h <= 'f':
		return int(h-'a') + 10
	default:
		return int(h-'A') + 10
	}
}

// interpolation returns the offset just after the `}` closing the `{` at
// offset open, skipping nested braces, strings and comments.
func (lx *lexer) interpolation(open int, startLine int) (int, error) {
	sub := &lexer{name: lx.name, src: lx.src, pos: open + 1, line: lx.line}
	depth := 1
	for sub.pos < len(sub.src) {
		c := sub.src[sub.pos]
		switch {
		case c == '{':
			depth++
			sub.pos++
		case c == '}':
			depth--
			sub.pos++
			if depth == 0 {
				lx.line = sub.line
				return sub.pos, nil
			}
		case c == '\'' || c == '"':
			if err := sub.str(sub.pos, false); err != nil {
				return 0, err
			}
		case c == 'r' && (sub.peek(1) == '\'' || sub.peek(1) == '"') &&
			(sub.pos == 0 || !isIdentPart(sub.src[sub.pos-1])):
			s := sub.pos
			sub.pos++
			if err := sub.str(s, true); err != nil {
				return 0, err
			}
		case c == '/' && sub.peek(1) == '*':
			if err := sub.blockComment(); err != nil {
				return 0, err
			}
		case c == '\n':
			sub.line++
			sub.pos++
		default:
			sub.pos++
		}
	}
	return 0, lx.errf(startLine, "unterminated string interpolation")
}

// matchBrackets returns, for every bracket token, the index of its partner
// (-1 for the other tokens).
func matchBrackets(name string, toks []Token) ([]int, error) {
	match := make([]int, len(toks))
	for i := range match {
		match[i] = -1
	}
	closer := map[string]string{"(": ")", "[": "]", "{": "}"}
	var stack []int
	for i, t := range toks {
		if t.Kind != KindPunct {
			continue
		}
		switch t.Text {
		case "(", "[", "{":
			stack = append(stack, i)
		case ")", "]", "}":
			if len(stack) == 0 {
				return nil, &LexError{File: name, Line: t.Line, Msg: fmt.Sprintf("unbalanced %q", t.Text)}
			}
			top := stack[len(stack)-1]
			if closer[toks[top].Text] != t.Text {
				return nil, &LexError{File: name, Line: t.Line, Msg: fmt.Sprintf("unbalanced %q (open %q at line %d)", t.Text, toks[top].Text, toks[top].Line)}
			}
			stack = stack[:len(stack)-1]
			match[top], match[i] = i, top
		}
	}
	if len(stack) != 0 {
		top := toks[stack[len(stack)-1]]
		return nil, &LexError{File: name, Line: top.Line, Msg: fmt.Sprintf("unbalanced %q", top.Text)}
	}
	return match, nil
}
