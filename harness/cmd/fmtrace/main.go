// Command fmtrace is built with -race. It hammers one shared
// generator.Formatters value from many goroutines for a list of tool
// configurations, with PATH reduced to a directory of recording stand-ins, and
// decides the behavioural half of C20 on the invocation log, the returned
// errors and the file bytes. The race half is decided by the race detector's
// log (GORACE=log_path=...), counted by the parent.
package main

import (
	"bufio"
	"bytes"
	"encoding/json"
	"flag"
	"fmt"
	"os"
	"path/filepath"
	"sort"
	"strings"
	"sync"
	"sync/atomic"

	"github.com/benoitkugler/gomacro/generator"
)

type toolSpec struct {
	name   string
	format generator.Format
	ext    string
}

var tools = []toolSpec{
	{"goimports", generator.Go, ".go"},
	{"dart", generator.Dart, ".dart"},
	{"npx", generator.TypeScript, ".ts"},
	{"pg_format", generator.Psql, ".sql"},
}

type logEntry struct {
	Tool  string   `json:"tool"`
	Args  []string `json:"args"`
	Kind  string   `json:"kind"`
	File  string   `json:"file"`
	Start int64    `json:"start"`
	End   int64    `json:"end"`
	Exit  int      `json:"exit"`
}

type violation struct {
	Config    string `json:"config"`
	Signature string `json:"signature"`
	Message   string `json:"message"`
}

type configResult struct {
	Config          string         `json:"config"`
	Rep             int            `json:"rep"`
	Requests        int            `json:"requests"`
	Probes          map[string]int `json:"probes"`
	FormatRuns      map[string]int `json:"format_runs"`
	MaxOverlap      int            `json:"max_overlap"`
	CompletionOrder string         `json:"completion_order"`
	Errors          int            `json:"errors_returned"`
}

type output struct {
	Results    []configResult `json:"results"`
	Violations []violation    `json:"violations"`
}

func main() {
	standin := flag.String("standin", "", "path of the stand-in binary")
	work := flag.String("work", "", "scratch directory")
	cfgs := flag.String("configs", "", "comma separated configurations, each 4 letters p|m|f for goimports,dart,npx,pg_format")
	n := flag.Int("n", 16, "goroutines")
	perG := flag.Int("per", 2, "requests per goroutine")
	reps := flag.Int("reps", 1, "repetitions per configuration")
	seed := flag.Int64("seed", 1, "seed")
	outPath := flag.String("out", "", "result file")
	flag.Parse()

	var out output
	for _, c := range strings.Split(*cfgs, ",") {
		for rep := 0; rep < *reps; rep++ {
			res, vs := runConfig(*standin, *work, c, rep, *n, *perG, *seed)
			out.Results = append(out.Results, res)
			out.Violations = append(out.Violations, vs...)
		}
	}
	b, _ := json.MarshalIndent(out, "", " ")
	if err := os.WriteFile(*outPath, b, 0o644); err != nil {
		fmt.Fprintln(os.Stderr, err)
		os.Exit(3)
	}
}

type request struct {
	idx    int
	tool   int // index in tools, -1 for NoFormat
	file   string
	orig   []byte
	err    error
	doneAt int64
}

func runConfig(standin, work, cfg string, rep, n, perG int, seed int64) (configResult, []violation) {
	var vs []violation
	bad := func(sig, format string, args ...any) {
		vs = append(vs, violation{Config: cfg, Signature: sig, Message: fmt.Sprintf(format, args...)})
	}
	dir := filepath.Join(work, fmt.Sprintf("cfg-%s-%d", cfg, rep))
	bin := filepath.Join(dir, "bin")
	must(os.MkdirAll(bin, 0o755))
	must(os.Symlink(standin, filepath.Join(bin, "which")))
	var cfgParts []string
	state := map[string]string{}
	for i, t := range tools {
		switch cfg[i] {
		case 'p':
			state[t.name] = "present"
		case 'f':
			state[t.name] = "failing"
		case 'x':
			state[t.name] = "unstartable"
		default:
			state[t.name] = "missing"
		}
		switch state[t.name] {
		case "missing":
		case "unstartable":
			must(os.WriteFile(filepath.Join(bin, t.name), []byte(unstartable), 0o755))
		default:
			must(os.Symlink(standin, filepath.Join(bin, t.name)))
		}
		cfgParts = append(cfgParts, t.name+"="+state[t.name])
	}
	logPath := filepath.Join(dir, "tools.jsonl")
	os.Setenv("PATH", bin)
	os.Setenv("VERIF_TOOLLOG", logPath)
	os.Setenv("VERIF_TOOLCFG", strings.Join(cfgParts, ";"))

	// requests: every goroutine issues perG requests; formats cycle so that all
	// five (four formats + NoFormat) are requested concurrently from the start
	total := n * perG
	reqs := make([]*request, total)
	for i := range reqs {
		k := int((int64(i)*7 + seed + int64(rep)) % 9)
		r := &request{idx: i, tool: -1}
		ext := ".txt"
		if k < 8 { // NoFormat for k == 8
			r.tool = k % 4
			ext = tools[r.tool].ext
		}
		r.file = filepath.Join(dir, fmt.Sprintf("req-%03d%s", i, ext))
		r.orig = []byte(fmt.Sprintf("// request %d\ncontent\n", i))
		must(os.WriteFile(r.file, r.orig, 0o644))
		reqs[i] = r
	}

	var fm generator.Formatters // the shared cache under test (zero value is ready)
	var wg sync.WaitGroup
	gate := make(chan struct{})
	var seq int64
	for g := 0; g < n; g++ {
		wg.Add(1)
		go func(g int) {
			defer wg.Done()
			<-gate
			for j := 0; j < perG; j++ {
				r := reqs[g*perG+j]
				f := generator.NoFormat
				if r.tool >= 0 {
					f = tools[r.tool].format
				}
				r.err = fm.FormatFile(f, r.file)
				r.doneAt = atomic.AddInt64(&seq, 1)
			}
		}(g)
	}
	close(gate)
	wg.Wait()

	// read the invocation log
	var entries []logEntry
	if f, err := os.Open(logPath); err == nil {
		sc := bufio.NewScanner(f)
		for sc.Scan() {
			var e logEntry
			if json.Unmarshal(sc.Bytes(), &e) == nil {
				entries = append(entries, e)
			} else {
				bad("harness-log-corrupt", "unparsable log line %q", sc.Text())
			}
		}
		f.Close()
	}

	res := configResult{Config: cfg, Rep: rep, Requests: total, Probes: map[string]int{}, FormatRuns: map[string]int{}}
	runsByFile := map[string][]logEntry{}
	for _, e := range entries {
		switch e.Kind {
		case "probe":
			res.Probes[e.Tool]++
		case "format":
			res.FormatRuns[e.Tool]++
			runsByFile[e.File] = append(runsByFile[e.File], e)
		default:
			bad("unexpected-tool-invocation", "tool %s invoked with unexpected arguments %q", e.Tool, e.Args)
		}
	}
	requested := map[string]int{}
	for _, r := range reqs {
		if r.tool >= 0 {
			requested[tools[r.tool].name]++
		}
	}
	for _, t := range tools {
		if res.Probes[t.name] > 1 {
			bad("probed-more-than-once", "tool %s probed %d times on one Formatters cache (%d requests)", t.name, res.Probes[t.name], requested[t.name])
		}
	}
	for _, r := range reqs {
		now, err := os.ReadFile(r.file)
		must(err)
		if r.err != nil {
			res.Errors++
		}
		if r.tool < 0 {
			if r.err != nil {
				bad("noformat-error", "NoFormat request returned error %v", r.err)
			}
			if !bytes.Equal(now, r.orig) || len(runsByFile[r.file]) != 0 {
				bad("noformat-touched", "NoFormat request touched %s", r.file)
			}
			continue
		}
		t := tools[r.tool]
		runs := runsByFile[r.file]
		switch state[t.name] {
		case "present":
			if r.err != nil {
				bad("present-error", "%s present, request %d returned error %v", t.name, r.idx, r.err)
			}
			if len(runs) != 1 {
				bad("present-run-count", "%s present, request %d: formatter ran %d times on its file (want 1)", t.name, r.idx, len(runs))
			} else if runs[0].Tool != t.name {
				bad("present-wrong-tool", "request %d for %s was formatted by %s", r.idx, t.name, runs[0].Tool)
			}
			want := append(append([]byte(nil), r.orig...), []byte(strings.Repeat("// formatted by "+t.name+"\n", len(runs)))...)
			if len(runs) == 1 && !bytes.Equal(now, want) {
				bad("present-file-content", "%s present, request %d: file content %q, want %q", t.name, r.idx, now, want)
			}
		case "missing":
			if r.err != nil {
				bad("missing-error", "%s missing, request %d returned error %v (want nil)", t.name, r.idx, r.err)
			}
			if !bytes.Equal(now, r.orig) {
				bad("missing-file-touched", "%s missing, request %d: file was modified", t.name, r.idx)
			}
			if len(runs) != 0 {
				bad("missing-run", "%s missing but a formatter ran on request %d", t.name, r.idx)
			}
		case "failing":
			if r.err == nil {
				bad("failing-no-error", "%s failing (exit 1), request %d returned nil error", t.name, r.idx)
			}
			if len(runs) != 1 {
				bad("failing-run-count", "%s failing, request %d: formatter ran %d times (want 1)", t.name, r.idx, len(runs))
			}
		case "unstartable":
			// installed, but the operating system refuses to execute it. A tool probed by executing it
			// looks absent (nothing is asserted on the error then); goimports is probed with `which`,
			// which finds it: its run fails, which must be reported.
			if t.name == "goimports" && r.err == nil {
				bad("failing-no-error:cannot-start", "%s is installed but cannot be executed, request %d returned nil error", t.name, r.idx)
			}
			if !bytes.Equal(now, r.orig) {
				bad("unstartable-file-touched", "%s cannot be executed, request %d: file was modified", t.name, r.idx)
			}
		}
	}

	// second phase, on the SAME cache: every tool that was present is damaged after its probe
	// (replaced by a file the operating system refuses to execute); one more request per tool must
	// report the failing run and leave the file alone.
	for i, t := range tools {
		if state[t.name] != "present" || requested[t.name] == 0 {
			continue
		}
		must(os.Remove(filepath.Join(bin, t.name)))
		must(os.WriteFile(filepath.Join(bin, t.name), []byte(unstartable), 0o755))
		file := filepath.Join(dir, fmt.Sprintf("late-%d%s", i, t.ext))
		orig := []byte("// late request\ncontent\n")
		must(os.WriteFile(file, orig, 0o644))
		err := fm.FormatFile(t.format, file)
		now, rerr := os.ReadFile(file)
		must(rerr)
		res.Requests++
		if err == nil {
			bad("failing-no-error:damaged-after-probe", "%s was present when probed and cannot be executed any more: the request returned nil error", t.name)
		} else {
			res.Errors++
		}
		if !bytes.Equal(now, orig) {
			bad("unstartable-file-touched", "%s damaged after its probe: file was modified", t.name)
		}
	}

	// interleaving evidence: maximal number of stand-in executions in flight
	type ev struct {
		t int64
		d int
	}
	var evs []ev
	for _, e := range entries {
		evs = append(evs, ev{e.Start, +1}, ev{e.End, -1})
	}
	sort.Slice(evs, func(i, j int) bool {
		if evs[i].t != evs[j].t {
			return evs[i].t < evs[j].t
		}
		return evs[i].d < evs[j].d
	})
	cur := 0
	for _, e := range evs {
		cur += e.d
		if cur > res.MaxOverlap {
			res.MaxOverlap = cur
		}
	}
	order := make([]*request, len(reqs))
	copy(order, reqs)
	sort.Slice(order, func(i, j int) bool { return order[i].doneAt < order[j].doneAt })
	var sb strings.Builder
	for _, r := range order {
		fmt.Fprintf(&sb, "%d.", r.idx)
	}
	res.CompletionOrder = sb.String()
	return res, vs
}

// unstartable is the content of a tool that is installed (found in PATH, executable bit set)
// but cannot be started: its interpreter does not exist.
const unstartable = "#!/nonexistent/verif-interpreter\n"

func must(err error) {
	if err != nil {
		fmt.Fprintln(os.Stderr, "fmtrace harness error:", err)
		os.Exit(3)
	}
}
