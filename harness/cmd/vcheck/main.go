// Command vcheck runs one property check: vcheck <Cxx> [--replay dir]
package main

import (
	"fmt"
	"os"

	"verif/core"
	"verif/monitors"
)

func main() {
	if len(os.Args) < 2 {
		fmt.Fprintln(os.Stderr, "usage: vcheck <Cxx> [--replay <dir>] | vcheck --worker ...")
		os.Exit(2)
	}
	if os.Args[1] == "--worker" {
		os.Exit(monitors.WorkerMain(os.Args[2:]))
	}
	if os.Args[1] == "--synth" { // debug: vcheck --synth <family> <n> <outdir>
		os.Exit(monitors.SynthDump(os.Args[2:]))
	}
	prop := os.Args[1]
	cfg := core.NewConfig(prop)
	for i := 2; i+1 < len(os.Args); i++ {
		if os.Args[i] == "--replay" {
			cfg.Replay = os.Args[i+1]
		}
	}
	fn, ok := monitors.Registry[prop]
	if !ok {
		fmt.Fprintf(os.Stderr, "unknown property %s\n", prop)
		os.Exit(2)
	}
	os.Exit(fn(cfg))
}
