// Command standin impersonates the external tools gomacro shells out to
// (which, goimports, dart, npx, pg_format). It is installed under those names
// (symlinks) in a directory that is the whole PATH of the process under test,
// and appends one JSON line per invocation to $VERIF_TOOLLOG.
//
// $VERIF_TOOLCFG = "goimports=present;dart=failing;npx=present;pg_format=missing"
// (missing tools simply have no symlink; "failing" = probe succeeds, format run exits 1 or is killed by a signal).
package main

import (
	"encoding/json"
	"os"
	"path/filepath"
	"strings"
	"syscall"
	"time"
)

type entry struct {
	Tool  string   `json:"tool"`
	Args  []string `json:"args"`
	Kind  string   `json:"kind"` // probe | format | other
	File  string   `json:"file,omitempty"`
	Start int64    `json:"start"`
	End   int64    `json:"end"`
	Exit  int      `json:"exit"`
	Pid   int      `json:"pid"`
}

func main() {
	start := time.Now().UnixNano()
	tool := filepath.Base(os.Args[0])
	args := os.Args[1:]
	cfg := map[string]string{}
	for _, kv := range strings.Split(os.Getenv("VERIF_TOOLCFG"), ";") {
		if k, v, ok := strings.Cut(kv, "="); ok {
			cfg[k] = v
		}
	}
	e := entry{Tool: tool, Args: args, Kind: "other", Start: start, Pid: os.Getpid()}
	exit := 0

	formatTool := tool
	switch tool {
	case "which":
		e.Kind = "probe"
		if len(args) == 1 {
			formatTool = args[0]
			e.Tool = args[0]
			found := false
			for _, d := range filepath.SplitList(os.Getenv("PATH")) {
				if st, err := os.Stat(filepath.Join(d, args[0])); err == nil && !st.IsDir() {
					found = true
					break
				}
			}
			if !found {
				exit = 1
			}
		}
	case "goimports":
		if len(args) == 2 && args[0] == "-w" {
			e.Kind, e.File = "format", args[1]
		}
	case "dart":
		if len(args) == 2 && args[0] == "format" && args[1] == "--help" {
			e.Kind = "probe"
		} else if len(args) == 2 && args[0] == "format" {
			e.Kind, e.File = "format", args[1]
		}
	case "npx":
		if len(args) == 2 && args[0] == "prettier" && args[1] == "-v" {
			e.Kind = "probe"
		} else if len(args) == 3 && args[0] == "prettier" && args[1] == "--write" {
			e.Kind, e.File = "format", args[2]
		}
	case "pg_format":
		if len(args) == 1 && args[0] == "-v" {
			e.Kind = "probe"
		} else if len(args) == 2 && args[0] == "-i" {
			e.Kind, e.File = "format", args[1]
		}
	}
	_ = formatTool

	switch e.Kind {
	case "probe":
		time.Sleep(15 * time.Millisecond) // keep the probe window wide open
	case "format":
		time.Sleep(time.Duration(2+os.Getpid()%7) * time.Millisecond)
		if cfg[tool] == "failing" {
			exit = 1
			if os.Getpid()%2 == 0 {
				exit = -9 // this run dies from a signal instead of exiting 1 (see below)
			}
		} else {
			f, err := os.OpenFile(e.File, os.O_APPEND|os.O_WRONLY, 0)
			if err != nil {
				exit = 2
			} else {
				f.WriteString("// formatted by " + tool + "\n")
				f.Close()
			}
		}
	default:
		exit = 3
	}

	e.Exit = exit
	e.End = time.Now().UnixNano()
	if logPath := os.Getenv("VERIF_TOOLLOG"); logPath != "" {
		b, _ := json.Marshal(e)
		f, err := os.OpenFile(logPath, os.O_APPEND|os.O_WRONLY|os.O_CREATE, 0o644)
		if err == nil {
			f.Write(append(b, '\n')) // one write, O_APPEND: atomic for short lines
			f.Close()
		}
	}
	if exit == -9 {
		syscall.Kill(os.Getpid(), syscall.SIGKILL) // a failing run without an exit code (crash, OOM kill)
		time.Sleep(time.Second)
	}
	os.Exit(exit)
}
