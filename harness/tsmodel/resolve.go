package tsmodel

import (
	"fmt"
	"strings"
)

func contains(list []string, s string) bool {
	for _, x := range list {
		if x == s {
			return true
		}
	}
	return false
}

// Resolve reduces t to its structural head: aliases, interfaces (with their
// extends clauses merged), typeof, keyof and indexed access types are
// evaluated until a primitive or builtin *Ref, *Literal, *Union,
// *Intersection, *ArrayOf, *Tuple, *ObjectType, *Mapped or *FuncType is
// reached. Nested types are left untouched.
func (e *Env) Resolve(t Type) (Type, error) {
	rt, _, err := e.resolve(t, nil)
	return rt, err
}

// resolve implements Resolve; seen lists the aliases expanded so far without
// going through an object or array (cycle guard).
func (e *Env) resolve(t Type, seen []string) (Type, []string, error) {
	for steps := 0; ; steps++ {
		if steps > 10000 {
			return nil, seen, fmt.Errorf("type %s is too deeply nested to evaluate", t)
		}
		var err error
		switch x := t.(type) {
		case nil:
			return nil, seen, fmt.Errorf("missing type")
		case *Ref:
			if d, ok := e.types[x.Name]; ok {
				if contains(seen, x.Name) {
					return nil, seen, fmt.Errorf("type alias %s circularly references itself", x.Name)
				}
				seen = append(seen[:len(seen):len(seen)], x.Name)
				body := d.Type
				if d.Kind == "interface" {
					if body, err = e.interfaceBody(d, seen); err != nil {
						return nil, seen, err
					}
				}
				if len(d.TypeParams) > 0 {
					if len(x.Args) > len(d.TypeParams) {
						return nil, seen, fmt.Errorf("type %s expects at most %d type arguments, got %d", x.Name, len(d.TypeParams), len(x.Args))
					}
					b := map[string]Type{}
					for i, tp := range d.TypeParams {
						switch {
						case i < len(x.Args):
							b[tp.Name] = x.Args[i]
						case tp.Default != nil:
							b[tp.Name] = subst(tp.Default, b)
						default:
							return nil, seen, fmt.Errorf("type %s requires %d type arguments, got %d", x.Name, len(d.TypeParams), len(x.Args))
						}
					}
					body = subst(body, b)
				} else if len(x.Args) > 0 {
					return nil, seen, fmt.Errorf("type %s is not generic", x.Name)
				}
				t = body
				continue
			}
			switch x.Name {
			case "Array":
				if len(x.Args) != 1 {
					return nil, seen, fmt.Errorf("Array requires 1 type argument")
				}
				return &ArrayOf{Elem: x.Args[0]}, seen, nil
			case "Readonly":
				if len(x.Args) != 1 {
					return nil, seen, fmt.Errorf("Readonly requires 1 type argument")
				}
				t = x.Args[0]
				continue
			case "Partial":
				if len(x.Args) != 1 {
					return nil, seen, fmt.Errorf("Partial requires 1 type argument")
				}
				inner, s2, err := e.resolve(x.Args[0], seen)
				if err != nil {
					return nil, s2, err
				}
				obj, ok := inner.(*ObjectType)
				if !ok {
					return nil, s2, fmt.Errorf("Partial<%s>: only object types are supported", x.Args[0])
				}
				out := &ObjectType{Index: obj.Index}
				for _, m := range obj.Members {
					c := *m
					c.Optional = true
					out.Members = append(out.Members, &c)
				}
				return out, s2, nil
			}
			return x, seen, nil
		case *TypeOf:
			t, err = e.evalTypeOf(x.Name)
		case *KeyOf:
			t, err = e.evalKeyOf(x.T, seen)
		case *Indexed:
			t, err = e.evalIndexed(x, seen)
		default:
			return t, seen, nil
		}
		if err != nil {
			return nil, seen, err
		}
	}
}

// interfaceBody returns the members of an interface including inherited ones.
func (e *Env) interfaceBody(d *Decl, seen []string) (Type, error) {
	own, _ := d.Type.(*ObjectType)
	if own == nil {
		return nil, fmt.Errorf("interface %s has no body", d.Name)
	}
	if len(d.Extends) == 0 {
		return own, nil
	}
	out := &ObjectType{Index: own.Index}
	ownKeys := map[string]bool{}
	for _, m := range own.Members {
		if m.Kind == "property" || m.Kind == "method" {
			ownKeys[m.Key] = true
		}
	}
	have := map[string]bool{}
	for _, parent := range d.Extends {
		pt, _, err := e.resolve(parent, seen)
		if err != nil {
			return nil, fmt.Errorf("interface %s extends %s: %v", d.Name, parent, err)
		}
		po, ok := pt.(*ObjectType)
		if !ok {
			return nil, fmt.Errorf("interface %s extends %s, which is not an object type", d.Name, parent)
		}
		for _, m := range po.Members {
			if ownKeys[m.Key] && m.Key != "" || have[m.Key] && m.Key != "" {
				continue
			}
			have[m.Key] = true
			out.Members = append(out.Members, m)
		}
		if out.Index == nil {
			out.Index = po.Index
		}
	}
	out.Members = append(out.Members, own.Members...)
	return out, nil
}

func litType(v LitValue, asConst bool) Type {
	switch v.Kind {
	case "string":
		if asConst {
			return &Literal{Kind: "string", Str: v.Str}
		}
		return &Ref{Name: "string"}
	case "number":
		if asConst {
			return &Literal{Kind: "number", Num: v.Num}
		}
		return &Ref{Name: "number"}
	case "boolean":
		if asConst {
			return &Literal{Kind: "boolean", Bool: v.Bool}
		}
		return &Ref{Name: "boolean"}
	}
	return &Ref{Name: "unknown"}
}

func litKey(t Type) (string, bool) {
	if l, ok := t.(*Literal); ok {
		switch l.Kind {
		case "string":
			return l.Str, true
		case "number":
			return canonicalNumberKey(l.Num), true
		}
	}
	return "", false
}

// constType is the type of the value of a const declaration.
func (e *Env) constType(d *Decl) (Type, error) {
	switch {
	case d.Type != nil:
		return d.Type, nil
	case d.CastType != nil:
		return d.CastType, nil
	case d.Value != nil:
		obj := &ObjectType{}
		for _, pr := range d.Value.Props {
			key := pr.Key
			if pr.Computed {
				if pr.ComputedObj == "" {
					return nil, fmt.Errorf("const %s: cannot evaluate computed key [%s]", d.Name, pr.Key)
				}
				kt, err := e.evalTypeOf(pr.ComputedObj + "." + pr.ComputedMember)
				if err != nil {
					return nil, fmt.Errorf("const %s: computed key [%s]: %v", d.Name, pr.Key, err)
				}
				k, ok := litKey(kt)
				if !ok {
					return nil, fmt.Errorf("const %s: computed key [%s] is not a literal", d.Name, pr.Key)
				}
				key = k
			} else if pr.Key == "..." {
				return nil, fmt.Errorf("const %s: spread properties cannot be evaluated", d.Name)
			}
			obj.Members = append(obj.Members, &Member{Kind: "property", Key: key, Quoted: pr.Quoted, Readonly: d.AsConst, Type: litType(pr.Value, d.AsConst), Line: pr.Line})
		}
		return obj, nil
	case d.Init != nil:
		return litType(*d.Init, true), nil // a const binding keeps its literal type
	}
	return nil, fmt.Errorf("const %s has no value", d.Name)
}

func (e *Env) evalTypeOf(name string) (Type, error) {
	parts := strings.Split(name, ".")
	d, ok := e.values[parts[0]]
	if !ok {
		if _, isClass := e.classes[parts[0]]; isClass {
			return nil, fmt.Errorf("typeof %s: class constructor types are not supported", name)
		}
		return nil, fmt.Errorf("typeof %s: %s is not a declared const", name, parts[0])
	}
	t, err := e.constType(d)
	if err != nil {
		return nil, err
	}
	for _, part := range parts[1:] {
		rt, _, err := e.resolve(t, nil)
		if err != nil {
			return nil, err
		}
		obj, ok := rt.(*ObjectType)
		if !ok {
			return nil, fmt.Errorf("typeof %s: %s is not an object", name, t)
		}
		var found *Member
		for _, m := range obj.Members {
			if m.Key == part && m.Kind == "property" {
				found = m
			}
		}
		if found == nil {
			return nil, fmt.Errorf("typeof %s: property %s does not exist", name, part)
		}
		t = found.Type
	}
	return t, nil
}

func unionOf(ts []Type) Type {
	var out []Type
	seen := map[string]bool{}
	for _, t := range ts {
		if u, ok := t.(*Union); ok {
			for _, a := range u.Alts {
				if s := a.String(); !seen[s] {
					seen[s] = true
					out = append(out, a)
				}
			}
			continue
		}
		if s := t.String(); !seen[s] {
			seen[s] = true
			out = append(out, t)
		}
	}
	switch len(out) {
	case 0:
		return &Ref{Name: "never"}
	case 1:
		return out[0]
	}
	return &Union{Alts: out}
}

func (e *Env) evalKeyOf(t Type, seen []string) (Type, error) {
	rt, _, err := e.resolve(t, seen)
	if err != nil {
		return nil, err
	}
	switch x := rt.(type) {
	case *ObjectType:
		var keys []Type
		for _, m := range x.Members {
			if m.Kind == "property" || m.Kind == "method" {
				keys = append(keys, &Literal{Kind: "string", Str: m.Key})
			}
		}
		if x.Index != nil {
			keys = append(keys, x.Index.Key)
		}
		return unionOf(keys), nil
	case *Mapped:
		return x.Constraint, nil
	case *ArrayOf, *Tuple:
		return &Ref{Name: "number"}, nil
	case *Intersection:
		var keys []Type
		for _, p := range x.Parts {
			k, err := e.evalKeyOf(p, seen)
			if err != nil {
				return nil, err
			}
			keys = append(keys, k)
		}
		return unionOf(keys), nil
	case *Ref:
		switch {
		case x.Name == "Record" && len(x.Args) == 2:
			return x.Args[0], nil
		case x.Name == "any":
			return &Union{Alts: []Type{&Ref{Name: "string"}, &Ref{Name: "number"}}}, nil
		case x.Name == "unknown" || x.Name == "never" || x.Name == "null" || x.Name == "undefined":
			return &Ref{Name: "never"}, nil
		}
	}
	return nil, fmt.Errorf("cannot evaluate keyof %s", t)
}

// flattenKeys lists the alternatives of an index type.
func (e *Env) flattenKeys(t Type, seen []string, out *[]Type) error {
	rt, s2, err := e.resolve(t, seen)
	if err != nil {
		return err
	}
	if u, ok := rt.(*Union); ok {
		for _, a := range u.Alts {
			if err := e.flattenKeys(a, s2, out); err != nil {
				return err
			}
		}
		return nil
	}
	if in, ok := rt.(*Intersection); ok {
		if base, ok := e.brandBase(in, s2); ok {
			rt = base
		}
	}
	*out = append(*out, rt)
	return nil
}

func (e *Env) evalIndexed(x *Indexed, seen []string) (Type, error) {
	obj, _, err := e.resolve(x.Obj, seen)
	if err != nil {
		return nil, err
	}
	var keys []Type
	if err := e.flattenKeys(x.Index, seen, &keys); err != nil {
		return nil, err
	}
	var results []Type
	for _, k := range keys {
		kref, _ := k.(*Ref)
		klit, _ := k.(*Literal)
		isNumber := kref != nil && kref.Name == "number" || klit != nil && klit.Kind == "number"
		switch o := obj.(type) {
		case *ObjectType:
			if key, ok := litKey(k); ok {
				var found *Member
				for _, m := range o.Members {
					if m.Key == key && (m.Kind == "property" || m.Kind == "method") {
						found = m
					}
				}
				switch {
				case found != nil:
					results = append(results, found.Type)
				case o.Index != nil:
					results = append(results, o.Index.Value)
				default:
					return nil, fmt.Errorf("%s: property %s does not exist on type %s", x, jsQuote(key), x.Obj)
				}
				continue
			}
			if kref != nil && (kref.Name == "string" || kref.Name == "number") && o.Index != nil {
				results = append(results, o.Index.Value)
				continue
			}
			if kref != nil && kref.Name == "never" {
				continue
			}
			return nil, fmt.Errorf("%s: type %s cannot be used to index type %s", x, k, x.Obj)
		case *ArrayOf:
			if !isNumber {
				return nil, fmt.Errorf("%s: type %s cannot be used to index an array", x, k)
			}
			results = append(results, o.Elem)
		case *Tuple:
			if klit != nil && klit.Kind == "number" {
				idx := -1
				for i := range o.Elems {
					if numbersEqual(klit.Num, fmt.Sprint(i)) {
						idx = i
					}
				}
				if idx < 0 {
					return nil, fmt.Errorf("%s: tuple %s has no element at index %s", x, x.Obj, klit.Num)
				}
				results = append(results, tupleElemType(o.Elems[idx]))
				continue
			}
			if !isNumber {
				return nil, fmt.Errorf("%s: type %s cannot be used to index a tuple", x, k)
			}
			for _, el := range o.Elems {
				results = append(results, tupleElemType(el))
			}
		case *Mapped:
			results = append(results, subst(o.Value, map[string]Type{o.Param: k}))
		case *Ref:
			if o.Name == "Record" && len(o.Args) == 2 {
				results = append(results, o.Args[1])
				continue
			}
			if o.Name == "any" {
				results = append(results, o)
				continue
			}
			return nil, fmt.Errorf("%s: type %s cannot be indexed", x, x.Obj)
		default:
			return nil, fmt.Errorf("%s: type %s cannot be indexed", x, x.Obj)
		}
	}
	return unionOf(results), nil
}

func tupleElemType(t Type) Type {
	switch x := t.(type) {
	case *OptionalElem:
		return x.Elem
	case *RestElem:
		if a, ok := x.Elem.(*ArrayOf); ok {
			return a.Elem
		}
		return x.Elem
	}
	return t
}

// subst replaces type parameter references by their bindings.
func subst(t Type, b map[string]Type) Type {
	if len(b) == 0 || t == nil {
		return t
	}
	list := func(ts []Type) []Type {
		if ts == nil {
			return nil
		}
		out := make([]Type, len(ts))
		for i, x := range ts {
			out[i] = subst(x, b)
		}
		return out
	}
	without := func(names ...string) map[string]Type {
		shadow := false
		for _, n := range names {
			if _, ok := b[n]; ok {
				shadow = true
			}
		}
		if !shadow {
			return b
		}
		nb := map[string]Type{}
		for k, v := range b {
			if !contains(names, k) {
				nb[k] = v
			}
		}
		return nb
	}
	switch x := t.(type) {
	case *Ref:
		if r, ok := b[x.Name]; ok && len(x.Args) == 0 {
			return r
		}
		if len(x.Args) == 0 {
			return x
		}
		return &Ref{Name: x.Name, Args: list(x.Args)}
	case *Union:
		return &Union{Alts: list(x.Alts)}
	case *Intersection:
		return &Intersection{Parts: list(x.Parts)}
	case *ArrayOf:
		return &ArrayOf{Elem: subst(x.Elem, b)}
	case *OptionalElem:
		return &OptionalElem{Elem: subst(x.Elem, b)}
	case *RestElem:
		return &RestElem{Elem: subst(x.Elem, b)}
	case *Tuple:
		return &Tuple{Elems: list(x.Elems)}
	case *KeyOf:
		return &KeyOf{T: subst(x.T, b)}
	case *Indexed:
		return &Indexed{Obj: subst(x.Obj, b), Index: subst(x.Index, b)}
	case *ObjectType:
		out := &ObjectType{}
		for _, m := range x.Members {
			c := *m
			c.Type = subst(m.Type, b)
			out.Members = append(out.Members, &c)
		}
		if x.Index != nil {
			out.Index = &IndexSig{Name: x.Index.Name, Readonly: x.Index.Readonly, Key: subst(x.Index.Key, b), Value: subst(x.Index.Value, b)}
		}
		return out
	case *Mapped:
		return &Mapped{Param: x.Param, Optional: x.Optional, Readonly: x.Readonly, Constraint: subst(x.Constraint, b), Value: subst(x.Value, without(x.Param))}
	case *FuncType:
		names := make([]string, len(x.TypeParams))
		for i, tp := range x.TypeParams {
			names[i] = tp.Name
		}
		nb := without(names...)
		out := &FuncType{TypeParams: x.TypeParams, New: x.New, Return: subst(x.Return, nb)}
		for _, pa := range x.Params {
			c := *pa
			c.Type = subst(pa.Type, nb)
			out.Params = append(out.Params, &c)
		}
		return out
	}
	return t
}

// isPrimitiveLike reports whether rt (already resolved) is string, number,
// boolean, a literal, or a union of those.
func (e *Env) isPrimitiveLike(rt Type, seen []string) bool {
	switch x := rt.(type) {
	case *Ref:
		return x.Name == "string" || x.Name == "number" || x.Name == "boolean"
	case *Literal:
		return true
	case *Union:
		for _, a := range x.Alts {
			ra, s2, err := e.resolve(a, seen)
			if err != nil || !e.isPrimitiveLike(ra, s2) {
				return false
			}
		}
		return len(x.Alts) > 0
	case *Intersection:
		_, ok := e.brandBase(x, seen)
		return ok
	}
	return false
}

// brandBase recognises brand intersections such as
// `number & { __opaque__: 'Int' }`: exactly one primitive-like part, all
// other parts object types whose keys all start with "__". It returns the
// (resolved) primitive part.
func (e *Env) brandBase(in *Intersection, seen []string) (Type, bool) {
	var base Type
	brands := 0
	for _, p := range in.Parts {
		rp, s2, err := e.resolve(p, seen)
		if err != nil {
			return nil, false
		}
		if obj, ok := rp.(*ObjectType); ok {
			if obj.Index != nil || len(obj.Members) == 0 {
				return nil, false
			}
			for _, m := range obj.Members {
				if !strings.HasPrefix(m.Key, "__") || m.Kind != "property" {
					return nil, false
				}
			}
			brands++
			continue
		}
		if !e.isPrimitiveLike(rp, s2) || base != nil {
			return nil, false
		}
		if nested, ok := rp.(*Intersection); ok {
			rp, _ = e.brandBase(nested, s2)
		}
		base = rp
	}
	return base, base != nil && brands > 0
}
