// Package tsmodel is a small, dependency free model of the TypeScript that
// gomacro generates: a parser for the type-level subset (type aliases,
// interfaces, `as const` objects, the Axios client class), a structural
// inhabitation checker for JSON documents and a type stripper producing plain
// JavaScript that node can check and run.
//
// The parser is deliberately wider than what the gomacro templates print
// today, so that harmless style changes are not reported as errors, but it
// rejects malformed TypeScript.
package tsmodel

import (
	"fmt"
	"math/big"
	"sort"
	"strings"
	"unicode"
	"unicode/utf16"
	"unicode/utf8"
)

// SyntaxError is returned by Parse, ParseType and Strip on malformed input.
type SyntaxError struct {
	Pos  int // byte offset
	Line int // 1-based
	Col  int // 1-based, in runes
	Msg  string
}

func (e *SyntaxError) Error() string {
	return fmt.Sprintf("%d:%d: %s", e.Line, e.Col, e.Msg)
}

type tokKind int

const (
	tEOF tokKind = iota
	tIdent
	tNum
	tStr
	tTmpl
	tRegex
	tPunct
)

func (k tokKind) String() string {
	switch k {
	case tEOF:
		return "end of file"
	case tIdent:
		return "identifier"
	case tNum:
		return "number"
	case tStr:
		return "string"
	case tTmpl:
		return "template literal"
	case tRegex:
		return "regular expression"
	}
	return "punctuation"
}

type token struct {
	kind   tokKind
	text   string // source text
	val    string // decoded value (strings), normalised decimal text (numbers)
	pos    int
	end    int
	nl     bool // a line terminator occurs between the previous token and this one
	bigint bool
}

func (t token) is(p string) bool      { return t.kind == tPunct && t.text == p }
func (t token) isIdent(s string) bool { return t.kind == tIdent && t.text == s }

func (t token) describe() string {
	if t.kind == tEOF {
		return "end of file"
	}
	s := t.text
	if len(s) > 30 {
		s = s[:30] + "..."
	}
	return fmt.Sprintf("%q", s)
}

type lineIndex struct {
	src    string
	starts []int
}

func newLineIndex(src string) *lineIndex {
	li := &lineIndex{src: src, starts: []int{0}}
	for i := 0; i < len(src); i++ {
		if src[i] == '\n' {
			li.starts = append(li.starts, i+1)
		}
	}
	return li
}

func (li *lineIndex) position(off int) (line, col int) {
	if off > len(li.src) {
		off = len(li.src)
	}
	i := sort.Search(len(li.starts), func(i int) bool { return li.starts[i] > off }) - 1
	if i < 0 {
		i = 0
	}
	return i + 1, utf8.RuneCountInString(li.src[li.starts[i]:off]) + 1
}

func (li *lineIndex) errAt(off int, format string, args ...any) *SyntaxError {
	line, col := li.position(off)
	return &SyntaxError{Pos: off, Line: line, Col: col, Msg: fmt.Sprintf(format, args...)}
}

type lexer struct {
	src   string
	pos   int
	lines *lineIndex
	prev  token // previous significant token (regex detection)
	has   bool
}

// lex tokenises src completely. The last token is always tEOF.
func lex(src string, lines *lineIndex) (toks []token, err error) {
	defer func() {
		if r := recover(); r != nil {
			if se, ok := r.(*SyntaxError); ok {
				err = se
				return
			}
			panic(r)
		}
	}()
	l := &lexer{src: src, lines: lines}
	for {
		t := l.next()
		toks = append(toks, t)
		if t.kind == tEOF {
			return toks, nil
		}
	}
}

func (l *lexer) fail(off int, format string, args ...any) {
	panic(l.lines.errAt(off, format, args...))
}

var puncts = []string{
	"...", "===", "!==", "**=", "<<=", "&&=", "||=", "??=",
	"=>", "==", "!=", "<=", "&&", "||", "??", "?.", "++", "--", "+=", "-=", "*=", "/=", "%=", "&=", "|=", "^=", "<<", "**",
}

const singlePuncts = "{}()[];,<>.+-*/%&|^!~?:=@"

func isIdentStart(r rune) bool {
	return r == '_' || r == '$' || unicode.IsLetter(r)
}

func isIdentPart(r rune) bool {
	return r == '_' || r == '$' || unicode.IsLetter(r) || unicode.IsDigit(r) || r == '\u200c' || r == '\u200d' || unicode.Is(unicode.Mn, r) || unicode.Is(unicode.Mc, r)
}

// keywords after which a `/` starts a regular expression
var regexAfterKeyword = map[string]bool{
	"return": true, "typeof": true, "instanceof": true, "in": true, "of": true, "new": true, "delete": true,
	"void": true, "throw": true, "case": true, "do": true, "else": true, "yield": true, "await": true,
}

func (l *lexer) regexAllowed() bool {
	if !l.has {
		return true
	}
	switch l.prev.kind {
	case tPunct:
		switch l.prev.text {
		case ")", "]", "}", "++", "--":
			return false
		}
		return true
	case tIdent:
		return regexAfterKeyword[l.prev.text]
	}
	return false
}

// skipSpace skips white space and comments, reporting whether a line
// terminator was seen.
func (l *lexer) skipSpace() (nl bool) {
	for l.pos < len(l.src) {
		c := l.src[l.pos]
		switch {
		case c == '\n' || c == '\r':
			nl = true
			l.pos++
		case c == ' ' || c == '\t' || c == '\v' || c == '\f':
			l.pos++
		case c == '/' && l.pos+1 < len(l.src) && l.src[l.pos+1] == '/':
			for l.pos < len(l.src) && l.src[l.pos] != '\n' {
				l.pos++
			}
		case c == '/' && l.pos+1 < len(l.src) && l.src[l.pos+1] == '*':
			end := strings.Index(l.src[l.pos+2:], "*/")
			if end < 0 {
				l.fail(l.pos, "unterminated block comment")
			}
			if strings.ContainsAny(l.src[l.pos:l.pos+2+end], "\n\r") {
				nl = true
			}
			l.pos += 2 + end + 2
		case c >= utf8.RuneSelf:
			r, n := utf8.DecodeRuneInString(l.src[l.pos:])
			if r == '\u2028' || r == '\u2029' {
				nl = true
				l.pos += n
			} else if r == '\ufeff' || unicode.IsSpace(r) {
				l.pos += n
			} else {
				return nl
			}
		default:
			return nl
		}
	}
	return nl
}

func (l *lexer) next() token {
	nl := l.skipSpace()
	t := l.scan()
	t.nl = nl
	if t.kind != tEOF {
		l.prev, l.has = t, true
	}
	return t
}

func (l *lexer) scan() token {
	start := l.pos
	if l.pos >= len(l.src) {
		return token{kind: tEOF, pos: start, end: start}
	}
	c := l.src[l.pos]
	r, rn := rune(c), 1
	if c >= utf8.RuneSelf {
		r, rn = utf8.DecodeRuneInString(l.src[l.pos:])
		if r == utf8.RuneError && rn <= 1 {
			l.fail(start, "invalid UTF-8 encoding")
		}
	}
	switch {
	case isIdentStart(r) || (c == '#' && l.pos+1 < len(l.src) && isIdentStart(rune(l.src[l.pos+1]))):
		l.pos += rn
		for l.pos < len(l.src) {
			r, n := utf8.DecodeRuneInString(l.src[l.pos:])
			if !isIdentPart(r) {
				break
			}
			l.pos += n
		}
		return token{kind: tIdent, text: l.src[start:l.pos], pos: start, end: l.pos}
	case c >= '0' && c <= '9', c == '.' && l.pos+1 < len(l.src) && l.src[l.pos+1] >= '0' && l.src[l.pos+1] <= '9':
		return l.scanNumber()
	case c == '"' || c == '\'':
		return l.scanString(c)
	case c == '`':
		return l.scanTemplate()
	case c == '/' && l.regexAllowed():
		return l.scanRegex()
	}
	rest := l.src[l.pos:]
	for _, p := range puncts {
		if strings.HasPrefix(rest, p) {
			if p == "?." && len(rest) > 2 && rest[2] >= '0' && rest[2] <= '9' {
				continue
			}
			l.pos += len(p)
			return token{kind: tPunct, text: p, pos: start, end: l.pos}
		}
	}
	if strings.IndexByte(singlePuncts, c) >= 0 {
		l.pos++
		return token{kind: tPunct, text: string(c), pos: start, end: l.pos}
	}
	l.fail(start, "unexpected character %q", r)
	panic("unreachable")
}

func isDigitIn(c byte, base int) bool {
	switch base {
	case 2:
		return c == '0' || c == '1'
	case 8:
		return c >= '0' && c <= '7'
	case 10:
		return c >= '0' && c <= '9'
	}
	return c >= '0' && c <= '9' || c >= 'a' && c <= 'f' || c >= 'A' && c <= 'F'
}

// digits scans digits of the base with single `_` separators between digits.
func (l *lexer) digits(base int) string {
	start := l.pos
	lastSep := true
	for l.pos < len(l.src) {
		c := l.src[l.pos]
		if isDigitIn(c, base) {
			lastSep = false
			l.pos++
		} else if c == '_' {
			if lastSep {
				l.fail(l.pos, "numeric separator is not allowed here")
			}
			lastSep = true
			l.pos++
		} else {
			break
		}
	}
	if l.pos > start && lastSep {
		l.fail(l.pos-1, "numeric separator is not allowed here")
	}
	return strings.ReplaceAll(l.src[start:l.pos], "_", "")
}

func (l *lexer) scanNumber() token {
	start := l.pos
	tok := token{kind: tNum, pos: start}
	src := l.src
	if src[l.pos] == '0' && l.pos+1 < len(src) && strings.IndexByte("xXoObB", src[l.pos+1]) >= 0 {
		base := 16
		switch src[l.pos+1] {
		case 'o', 'O':
			base = 8
		case 'b', 'B':
			base = 2
		}
		l.pos += 2
		ds := l.digits(base)
		if ds == "" {
			l.fail(start, "malformed number literal")
		}
		n, _ := new(big.Int).SetString(ds, base)
		tok.val = n.String()
	} else {
		intPart := ""
		if src[l.pos] != '.' {
			intPart = l.digits(10)
			if len(intPart) > 1 && intPart[0] == '0' {
				l.fail(start, "number literal with leading zero (legacy octal) is not allowed")
			}
		}
		val := intPart
		if l.pos < len(src) && src[l.pos] == '.' {
			l.pos++
			frac := ""
			if l.pos < len(src) && isDigitIn(src[l.pos], 10) {
				frac = l.digits(10)
			}
			if intPart == "" && frac == "" {
				l.fail(start, "malformed number literal")
			}
			if intPart == "" {
				val = "0"
			}
			if frac != "" {
				val += "." + frac
			}
		}
		if l.pos < len(src) && (src[l.pos] == 'e' || src[l.pos] == 'E') {
			l.pos++
			sign := ""
			if l.pos < len(src) && (src[l.pos] == '+' || src[l.pos] == '-') {
				sign = string(src[l.pos])
				l.pos++
			}
			if l.pos >= len(src) || !isDigitIn(src[l.pos], 10) {
				l.fail(start, "malformed number literal: exponent has no digits")
			}
			val += "e" + sign + l.digits(10)
		}
		tok.val = val
	}
	if l.pos < len(src) && src[l.pos] == 'n' {
		if strings.ContainsAny(tok.val, ".e") {
			l.fail(start, "malformed bigint literal")
		}
		tok.bigint = true
		l.pos++
	}
	if l.pos < len(src) {
		r, _ := utf8.DecodeRuneInString(src[l.pos:])
		if isIdentPart(r) {
			l.fail(l.pos, "an identifier or keyword cannot immediately follow a numeric literal")
		}
	}
	tok.end = l.pos
	tok.text = src[start:l.pos]
	return tok
}

// escape decodes the escape sequence starting at l.pos (which points at the
// backslash) and appends its UTF-16 value to units. Only escapes that mean the
// same thing to every JavaScript engine in strict mode are accepted: an
// "identity escape" such as \a or \U (which Go's %q produces) is legal in a
// sloppy-mode JS string but silently denotes another value, so it is rejected.
func (l *lexer) escape(units []uint16) []uint16 {
	start := l.pos
	l.pos++ // backslash
	if l.pos >= len(l.src) {
		l.fail(start, "unterminated escape sequence")
	}
	c := l.src[l.pos]
	l.pos++
	simple := map[byte]uint16{'n': '\n', 't': '\t', 'r': '\r', 'b': '\b', 'f': '\f', 'v': '\v', '\\': '\\', '"': '"', '\'': '\'', '`': '`', '/': '/', '$': '$'}
	if u, ok := simple[c]; ok {
		return append(units, u)
	}
	hex := func(n int) uint16 {
		if l.pos+n > len(l.src) {
			l.fail(start, "invalid escape sequence %q: expected %d hexadecimal digits", l.src[start:], n)
		}
		v := 0
		for i := 0; i < n; i++ {
			d := l.src[l.pos+i]
			if !isDigitIn(d, 16) {
				l.fail(start, "invalid escape sequence %q: expected %d hexadecimal digits", l.src[start:l.pos+i+1], n)
			}
			v = v*16 + hexVal(d)
		}
		l.pos += n
		return uint16(v)
	}
	switch c {
	case '\n':
		return units // line continuation
	case '\r':
		if l.pos < len(l.src) && l.src[l.pos] == '\n' {
			l.pos++
		}
		return units
	case '0':
		if l.pos < len(l.src) && isDigitIn(l.src[l.pos], 10) {
			l.fail(start, "invalid escape sequence %q: octal escapes are not allowed", l.src[start:l.pos+1])
		}
		return append(units, 0)
	case 'x':
		return append(units, hex(2))
	case 'u':
		if l.pos < len(l.src) && l.src[l.pos] == '{' {
			end := strings.IndexByte(l.src[l.pos:], '}')
			if end < 2 {
				l.fail(start, "invalid escape sequence: malformed \\u{...}")
			}
			v := 0
			for _, d := range []byte(l.src[l.pos+1 : l.pos+end]) {
				if !isDigitIn(d, 16) || v > 0x10FFFF {
					l.fail(start, "invalid escape sequence %q", l.src[start:l.pos+end+1])
				}
				v = v*16 + hexVal(d)
			}
			if v > 0x10FFFF {
				l.fail(start, "invalid escape sequence %q: code point out of range", l.src[start:l.pos+end+1])
			}
			l.pos += end + 1
			if v >= 0x10000 {
				r1, r2 := utf16.EncodeRune(rune(v))
				return append(units, uint16(r1), uint16(r2))
			}
			return append(units, uint16(v))
		}
		return append(units, hex(4))
	}
	r, n := utf8.DecodeRuneInString(l.src[l.pos-1:])
	l.fail(start, "invalid escape sequence %q (not a JavaScript escape; it would silently denote %q)", l.src[start:l.pos-1+n], string(r))
	panic("unreachable")
}

func hexVal(d byte) int {
	switch {
	case d >= '0' && d <= '9':
		return int(d - '0')
	case d >= 'a' && d <= 'f':
		return int(d-'a') + 10
	}
	return int(d-'A') + 10
}

func appendRuneUnits(units []uint16, r rune) []uint16 {
	if r >= 0x10000 {
		r1, r2 := utf16.EncodeRune(r)
		return append(units, uint16(r1), uint16(r2))
	}
	return append(units, uint16(r))
}

func (l *lexer) scanString(quote byte) token {
	start := l.pos
	l.pos++
	var units []uint16
	for {
		if l.pos >= len(l.src) {
			l.fail(start, "unterminated string literal")
		}
		c := l.src[l.pos]
		switch {
		case c == quote:
			l.pos++
			return token{kind: tStr, text: l.src[start:l.pos], val: string(utf16.Decode(units)), pos: start, end: l.pos}
		case c == '\n' || c == '\r':
			l.fail(start, "unterminated string literal")
		case c == '\\':
			units = l.escape(units)
		default:
			r, n := utf8.DecodeRuneInString(l.src[l.pos:])
			if r == utf8.RuneError && n <= 1 {
				l.fail(l.pos, "invalid UTF-8 encoding in string literal")
			}
			units = appendRuneUnits(units, r)
			l.pos += n
		}
	}
}

func (l *lexer) scanTemplate() token {
	start := l.pos
	l.pos++
	for {
		if l.pos >= len(l.src) {
			l.fail(start, "unterminated template literal")
		}
		c := l.src[l.pos]
		switch {
		case c == '`':
			l.pos++
			return token{kind: tTmpl, text: l.src[start:l.pos], pos: start, end: l.pos}
		case c == '\\':
			l.escape(nil)
		case c == '$' && l.pos+1 < len(l.src) && l.src[l.pos+1] == '{':
			l.pos += 2
			depth := 1
			savedPrev, savedHas := l.prev, l.has
			l.has = false
			for depth > 0 {
				t := l.next()
				switch {
				case t.kind == tEOF:
					l.fail(start, "unterminated template literal")
				case t.is("{"):
					depth++
				case t.is("}"):
					depth--
				}
			}
			l.prev, l.has = savedPrev, savedHas
		default:
			l.pos++
		}
	}
}

func (l *lexer) scanRegex() token {
	start := l.pos
	l.pos++
	inClass := false
	for {
		if l.pos >= len(l.src) || l.src[l.pos] == '\n' {
			l.fail(start, "unterminated regular expression literal")
		}
		c := l.src[l.pos]
		l.pos++
		if c == '\\' {
			if l.pos < len(l.src) && l.src[l.pos] != '\n' {
				l.pos++
			}
			continue
		}
		if c == '[' {
			inClass = true
		} else if c == ']' {
			inClass = false
		} else if c == '/' && !inClass {
			break
		}
	}
	for l.pos < len(l.src) && isIdentPart(rune(l.src[l.pos])) {
		l.pos++
	}
	return token{kind: tRegex, text: l.src[start:l.pos], pos: start, end: l.pos}
}
