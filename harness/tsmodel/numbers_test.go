package tsmodel

import "testing"

func TestNumbersEqual(t *testing.T) {
	tests := []struct {
		a, b string
		want bool
	}{
		{"1", "1", true}, {"1", "1.0", true}, {"1", "1e0", true}, {"1", "10e-1", true}, {"100", "1e2", true}, {"100", "1E+2", true},
		{"0.5", "5e-1", true}, {"0.5", ".5", true}, {"-1", "-1.00", true}, {"0", "-0", true}, {"0", "0.000", true}, {"0e5", "0", true},
		{"1e+06", "1000000", true}, {"1.5e-07", "0.00000015", true}, {"0x10", "16", true}, {"1_000", "1000", true},
		{"123456789012345678901234567890", "123456789012345678901234567890.0", true},
		{"1e999999999999999999999", "1e999999999999999999999", true},
		{"1e999999999999999999999", "1e999999999999999999998", false},
		{"1", "2", false}, {"1", "-1", false}, {"1", "1.0000000000000000000001", false}, {"0.1", "0.10000000000000001", false},
		{"1", "abc", false}, {"", "0", false}, {"1e", "1", false}, {"1e+", "1", false}, {".", "0", false}, {"1.2.3", "1.2", false}, {"1e+-2", "1", false},
	}
	for _, tc := range tests {
		if got := numbersEqual(tc.a, tc.b); got != tc.want {
			t.Errorf("numbersEqual(%q, %q) = %v, want %v", tc.a, tc.b, got, tc.want)
		}
		if got := numbersEqual(tc.b, tc.a); got != tc.want {
			t.Errorf("numbersEqual(%q, %q) = %v, want %v (symmetry)", tc.b, tc.a, got, tc.want)
		}
	}
}

func TestIsJSONNumber(t *testing.T) {
	yes := []string{"0", "-0", "1", "12", "1.5", "-1.5", "1e5", "1E5", "1e+5", "1e-5", "0.0", "1.0", "10e-1"}
	no := []string{"", "-", "01", "1.", ".5", "+1", "1e", "1e+", "0x10", "1_0", " 1", "1 ", "abc", "1a", "--1", "NaN", "Infinity"}
	for _, s := range yes {
		if !isJSONNumber(s) {
			t.Errorf("isJSONNumber(%q) = false, want true", s)
		}
	}
	for _, s := range no {
		if isJSONNumber(s) {
			t.Errorf("isJSONNumber(%q) = true, want false", s)
		}
	}
}

func TestCanonicalNumberKey(t *testing.T) {
	tests := []struct{ in, want string }{
		{"1", "1"}, {"1.0", "1"}, {"1e3", "1000"}, {"0.5", "0.5"}, {"-1", "-1"}, {"1.50", "1.5"}, {"0", "0"},
		{"1e21", "1e+21"}, {"1e-7", "1e-7"}, {"123456789", "123456789"},
	}
	for _, tc := range tests {
		if got := canonicalNumberKey(tc.in); got != tc.want {
			t.Errorf("canonicalNumberKey(%q) = %q, want %q", tc.in, got, tc.want)
		}
	}
}
