package tsmodel

import (
	"math/big"
	"strconv"
	"strings"
)

// decimal is an exact decimal number: sign * 0.digits * 10^exp, with digits
// having no leading nor trailing zero ("" for zero).
type decimal struct {
	neg    bool
	digits string
	exp    *big.Int
}

// parseDecimal parses JSON / JavaScript decimal notation (and 0x, 0o, 0b
// integers, numeric separators). No big number is ever materialised, so huge
// exponents are harmless.
func parseDecimal(s string) (decimal, bool) {
	var d decimal
	s = strings.TrimSpace(s)
	if strings.HasPrefix(s, "-") {
		d.neg = true
		s = s[1:]
	} else if strings.HasPrefix(s, "+") {
		s = s[1:]
	}
	s = strings.ReplaceAll(s, "_", "")
	if s == "" {
		return d, false
	}
	if len(s) > 2 && s[0] == '0' && strings.IndexByte("xXoObB", s[1]) >= 0 {
		base := map[byte]int{'x': 16, 'X': 16, 'o': 8, 'O': 8, 'b': 2, 'B': 2}[s[1]]
		n, ok := new(big.Int).SetString(s[2:], base)
		if !ok {
			return d, false
		}
		s = n.String()
	}
	mant, expText := s, ""
	if i := strings.IndexAny(s, "eE"); i >= 0 {
		mant, expText = s[:i], s[i+1:]
		if expText == "" {
			return d, false
		}
	}
	intPart, frac := mant, ""
	if i := strings.IndexByte(mant, '.'); i >= 0 {
		intPart, frac = mant[:i], mant[i+1:]
	}
	if intPart == "" && frac == "" {
		return d, false
	}
	for _, c := range intPart + frac {
		if c < '0' || c > '9' {
			return d, false
		}
	}
	exp := new(big.Int)
	if expText != "" {
		t := strings.TrimPrefix(expText, "+")
		if _, ok := exp.SetString(t, 10); !ok || strings.HasPrefix(t, "+") || t == "-" {
			return d, false
		}
	}
	digits := intPart + frac
	exp.Add(exp, big.NewInt(int64(len(intPart))))
	trimmed := strings.TrimLeft(digits, "0")
	exp.Sub(exp, big.NewInt(int64(len(digits)-len(trimmed))))
	trimmed = strings.TrimRight(trimmed, "0")
	if trimmed == "" {
		return decimal{digits: "", exp: new(big.Int)}, true // zero (sign ignored: -0 == 0)
	}
	d.digits, d.exp = trimmed, exp
	return d, true
}

func (d decimal) equal(o decimal) bool {
	return d.neg == o.neg && d.digits == o.digits && d.exp.Cmp(o.exp) == 0
}

// numbersEqual compares two number texts exactly (1 == 1.0 == 1e0).
func numbersEqual(a, b string) bool {
	da, ok1 := parseDecimal(a)
	db, ok2 := parseDecimal(b)
	return ok1 && ok2 && da.equal(db)
}

// isJSONNumber reports whether s follows the JSON number grammar.
func isJSONNumber(s string) bool {
	i := 0
	if i < len(s) && s[i] == '-' {
		i++
	}
	digits := func() int {
		n := 0
		for i < len(s) && s[i] >= '0' && s[i] <= '9' {
			i++
			n++
		}
		return n
	}
	if i < len(s) && s[i] == '0' {
		i++
	} else if digits() == 0 {
		return false
	}
	if i < len(s) && s[i] == '.' {
		i++
		if digits() == 0 {
			return false
		}
	}
	if i < len(s) && (s[i] == 'e' || s[i] == 'E') {
		i++
		if i < len(s) && (s[i] == '+' || s[i] == '-') {
			i++
		}
		if digits() == 0 {
			return false
		}
	}
	return i == len(s)
}

// canonicalNumberKey returns the property key JavaScript derives from a
// numeric literal used as property name (1.0 -> "1", 1e3 -> "1000").
func canonicalNumberKey(text string) string {
	f, err := strconv.ParseFloat(strings.ReplaceAll(text, "_", ""), 64)
	if err != nil {
		if d, ok := parseDecimal(text); ok && d.digits != "" && d.exp.IsInt64() && d.exp.Int64() <= 400 && d.exp.Int64() >= int64(len(d.digits)) {
			// integer beyond strconv syntax (hex etc.)
			f, _ = strconv.ParseFloat(d.digits+strings.Repeat("0", int(d.exp.Int64())-len(d.digits)), 64)
		} else {
			return text
		}
	}
	abs := f
	if abs < 0 {
		abs = -abs
	}
	if abs >= 1e21 || abs != 0 && abs < 1e-6 {
		s := strconv.FormatFloat(f, 'e', -1, 64) // 1e+21 style
		mant, exp, _ := strings.Cut(s, "e")
		n, _ := strconv.Atoi(exp)
		sign := "+"
		if n < 0 {
			sign = ""
		}
		return mant + "e" + sign + strconv.Itoa(n)
	}
	return strconv.FormatFloat(f, 'f', -1, 64)
}
