package tsmodel

import (
	"fmt"
	"strings"
)

// File is a parsed TypeScript source file.
type File struct {
	Decls   []*Decl   // in source order: type aliases, interfaces, consts
	Imports []*Import // import type {A} from "m";  import X from "m";
	Class   *Class    // the first class (the Axios client); nil if none
	Classes []*Class  // all classes, in source order

	// DefaultExport is the expression text of `export default <expr>;` ("" if none).
	DefaultExport string
	// ExportLists are the names in `export { A, B as C };` statements.
	ExportLists [][]string

	src   string
	items []*item
	lines *lineIndex
	edits []edit // edits turning the source into JavaScript
}

// Source returns the text given to Parse.
func (f *File) Source() string { return f.src }

type itemKind int

const (
	itImport itemKind = iota
	itDecl
	itClass
	itExportDefault
	itExportList
	itOther
)

// item is a top level statement with its byte range, in source order.
type item struct {
	kind     itemKind
	pos, end int
	imp      *Import
	decl     *Decl
	class    *Class
}

// edit replaces src[pos:end] by text.
type edit struct {
	pos, end int
	text     string
}

// Import is an import statement.
type Import struct {
	TypeOnly  bool         // import type ...
	Default   string       // import X from "m"
	Namespace string       // import * as X from "m"
	Named     []ImportName // import { A, B as C } from "m"
	Module    string
	Line      int
}

// ImportName is one binding of a named import list.
type ImportName struct {
	Name     string // name in the module
	Alias    string // local name (== Name when there is no `as`)
	TypeOnly bool   // import { type A }
}

// Decl is a top level type alias, interface or const.
type Decl struct {
	Kind       string // "type" | "interface" | "const"
	Name       string
	Type       Type         // alias target / interface body as *ObjectType / for const: the declared annotation if any, else nil
	Value      *ObjectLit   // const only: object literal initialiser
	Init       *LitValue    // const only: initialiser that is not an object literal
	AsConst    bool         // const only: `... as const`
	CastType   Type         // const only: `... as T` / `... satisfies T`
	TypeParams []*TypeParam // generics
	Extends    []Type       // interface only
	Exported   bool
	Declare    bool // `declare ...`
	Line       int
}

// TypeParam is a generic parameter `T extends C = D`.
type TypeParam struct {
	Name       string
	Constraint Type
	Default    Type
}

// ObjectLit is an object literal expression used as const initialiser.
type ObjectLit struct {
	Props []*Prop
}

// Prop is a property of an ObjectLit.
type Prop struct {
	Key            string // identifier, decoded string, number text; for computed keys the expression text
	Quoted         bool
	Computed       bool   // [expr]: value
	ComputedObj    string // for [Obj.Member]
	ComputedMember string
	Value          LitValue
	Line           int
}

// LitValue is a literal (or opaque) expression.
type LitValue struct {
	Kind string // "string" | "number" | "boolean" | "other"
	Str  string
	Num  string // source text with sign, e.g. "-1", "1e+06"
	Bool bool
	Raw  string // source text
}

// Class is a class declaration.
type Class struct {
	Name       string
	Abstract   bool
	Exported   bool
	Default    bool
	TypeParams []*TypeParam
	Extends    string // expression text of the extends clause, without type arguments
	Implements []Type
	Methods    []*Method // all methods but the constructor, including abstract ones and accessors
	Ctor       *Method   // nil if there is no constructor
	CtorParams []*Param
	Props      []*ClassProp
	RawBody    string // text of the body including braces
	Line       int

	pos, end int
}

// Method is a class method (or accessor, or the constructor).
type Method struct {
	Name       string
	Async      bool
	Abstract   bool
	Static     bool
	Generator  bool
	Accessor   string   // "get" | "set" | ""
	Modifiers  []string // as written, e.g. ["abstract", "protected"]
	Optional   bool
	TypeParams []*TypeParam
	Params     []*Param
	Return     Type   // nil if none
	Body       string // raw text including braces, "" if there is no body
	Line       int
	// Annotations found inside the body: `const x: T = ...`, `expr as T`, `catch (e: T)`.
	BodyAnnotations []*Annotation
}

// Annotation is a type annotation found in JavaScript code.
type Annotation struct {
	Kind string // "var" | "as" | "satisfies" | "catch" | "param" | "return" | "typeargs"
	Name string // variable name for "var"/"catch"/"param"
	Type Type   // nil for `as const`
	Line int
}

// ClassProp is a class field.
type ClassProp struct {
	Name      string
	Modifiers []string
	Optional  bool
	Type      Type   // nil if none
	Init      string // initialiser expression text, "" if none
	Line      int
}

// Param is a function/method parameter.
type Param struct {
	Name      string // identifier or the text of a destructuring pattern
	Type      Type   // nil if none
	Optional  bool
	Rest      bool
	Default   string   // default value expression text
	Modifiers []string // protected, private, public, readonly, override => parameter property
}

// ---- type AST ----

// Type is a node of the type AST.
type Type interface {
	String() string
	prec() int
}

// Ref is a (possibly generic, possibly qualified) type reference, including
// the keywords string, number, boolean, null, undefined, unknown, any, never,
// void, object.
type Ref struct {
	Name string
	Args []Type
}

// Union is `A | B`.
type Union struct{ Alts []Type }

// Intersection is `A & B`.
type Intersection struct{ Parts []Type }

// ArrayOf is `T[]`.
type ArrayOf struct{ Elem Type }

// Tuple is `[A, B]`; elements may be *OptionalElem or *RestElem.
type Tuple struct{ Elems []Type }

// OptionalElem is an optional tuple element `T?`.
type OptionalElem struct{ Elem Type }

// RestElem is a rest tuple element `...T[]`.
type RestElem struct{ Elem Type }

// ObjectType is an object type literal or an interface body.
type ObjectType struct {
	Members []*Member
	Index   *IndexSig
}

// Member is a member of an ObjectType.
type Member struct {
	Kind     string // "property" | "method" | "call" | "construct"
	Key      string // "" for call/construct signatures
	Quoted   bool
	Optional bool
	Readonly bool
	Type     Type // property type; *FuncType for the other kinds
	Line     int
}

// IndexSig is `[k: K]: V`.
type IndexSig struct {
	Name     string
	Key      Type
	Value    Type
	Readonly bool
}

// Literal is a literal type.
type Literal struct {
	Kind string // "string" | "number" | "boolean"
	Str  string
	Num  string // source text, with sign
	Bool bool
}

// TypeOf is `typeof X` or `typeof X.Y`.
type TypeOf struct{ Name string }

// KeyOf is `keyof T`.
type KeyOf struct{ T Type }

// Indexed is `T[K]`.
type Indexed struct{ Obj, Index Type }

// FuncType is `(a: A) => R` or `new (a: A) => R`, also used for method and call signatures.
type FuncType struct {
	TypeParams []*TypeParam
	Params     []*Param
	Return     Type // may be nil for signatures without return type
	New        bool
}

// Mapped is `{ [K in C]: V }`.
type Mapped struct {
	Param      string
	Constraint Type
	Value      Type
	Optional   bool
	Readonly   bool
}

const (
	precUnion = iota
	precIntersection
	precOperator
	precPostfix
)

func (*Ref) prec() int          { return precPostfix }
func (*Union) prec() int        { return precUnion }
func (*Intersection) prec() int { return precIntersection }
func (*ArrayOf) prec() int      { return precPostfix }
func (*Tuple) prec() int        { return precPostfix }
func (*OptionalElem) prec() int { return precPostfix }
func (*RestElem) prec() int     { return precPostfix }
func (*ObjectType) prec() int   { return precPostfix }
func (*Literal) prec() int      { return precPostfix }
func (*TypeOf) prec() int       { return precOperator }
func (*KeyOf) prec() int        { return precOperator }
func (*Indexed) prec() int      { return precPostfix }
func (*FuncType) prec() int     { return precUnion }
func (*Mapped) prec() int       { return precPostfix }

func str(t Type, min int) string {
	if t == nil {
		return "<nil>"
	}
	s := t.String()
	if t.prec() < min {
		return "(" + s + ")"
	}
	return s
}

func joinTypes(ts []Type, sep string, min int) string {
	parts := make([]string, len(ts))
	for i, t := range ts {
		parts[i] = str(t, min)
	}
	return strings.Join(parts, sep)
}

func (t *Ref) String() string {
	if len(t.Args) == 0 {
		return t.Name
	}
	return t.Name + "<" + joinTypes(t.Args, ", ", precUnion) + ">"
}
func (t *Union) String() string        { return joinTypes(t.Alts, " | ", precIntersection) }
func (t *Intersection) String() string { return joinTypes(t.Parts, " & ", precOperator) }
func (t *ArrayOf) String() string      { return str(t.Elem, precPostfix) + "[]" }
func (t *Tuple) String() string        { return "[" + joinTypes(t.Elems, ", ", precUnion) + "]" }
func (t *OptionalElem) String() string { return str(t.Elem, precPostfix) + "?" }
func (t *RestElem) String() string     { return "..." + str(t.Elem, precPostfix) }
func (t *TypeOf) String() string       { return "typeof " + t.Name }
func (t *KeyOf) String() string        { return "keyof " + str(t.T, precOperator) }
func (t *Indexed) String() string {
	return str(t.Obj, precPostfix) + "[" + str(t.Index, precUnion) + "]"
}

func (t *Literal) String() string {
	switch t.Kind {
	case "string":
		return jsQuote(t.Str)
	case "number":
		return t.Num
	}
	return fmt.Sprint(t.Bool)
}

func keyString(key string, quoted bool) string {
	if quoted || !isIdentifierName(key) {
		return jsQuote(key)
	}
	return key
}

func (t *ObjectType) String() string {
	var parts []string
	for _, m := range t.Members {
		parts = append(parts, m.String())
	}
	if ix := t.Index; ix != nil {
		ro := ""
		if ix.Readonly {
			ro = "readonly "
		}
		parts = append(parts, fmt.Sprintf("%s[%s: %s]: %s", ro, ix.Name, str(ix.Key, precUnion), str(ix.Value, precUnion)))
	}
	if len(parts) == 0 {
		return "{}"
	}
	return "{ " + strings.Join(parts, "; ") + " }"
}

func (m *Member) String() string {
	var b strings.Builder
	if m.Readonly {
		b.WriteString("readonly ")
	}
	opt := ""
	if m.Optional {
		opt = "?"
	}
	switch m.Kind {
	case "call", "construct", "method":
		ft, _ := m.Type.(*FuncType)
		if m.Kind == "construct" {
			b.WriteString("new ")
		}
		if m.Kind == "method" {
			b.WriteString(keyString(m.Key, m.Quoted) + opt)
		}
		if ft != nil {
			b.WriteString(ft.signature(": "))
		}
	default:
		b.WriteString(keyString(m.Key, m.Quoted) + opt + ": " + str(m.Type, precUnion))
	}
	return b.String()
}

func typeParamsString(tps []*TypeParam) string {
	if len(tps) == 0 {
		return ""
	}
	parts := make([]string, len(tps))
	for i, tp := range tps {
		parts[i] = tp.Name
		if tp.Constraint != nil {
			parts[i] += " extends " + str(tp.Constraint, precUnion)
		}
		if tp.Default != nil {
			parts[i] += " = " + str(tp.Default, precUnion)
		}
	}
	return "<" + strings.Join(parts, ", ") + ">"
}

func (p *Param) String() string {
	s := ""
	if len(p.Modifiers) > 0 {
		s = strings.Join(p.Modifiers, " ") + " "
	}
	if p.Rest {
		s += "..."
	}
	s += p.Name
	if p.Optional {
		s += "?"
	}
	if p.Type != nil {
		s += ": " + str(p.Type, precUnion)
	}
	if p.Default != "" {
		s += " = " + p.Default
	}
	return s
}

func (t *FuncType) signature(retSep string) string {
	parts := make([]string, len(t.Params))
	for i, p := range t.Params {
		parts[i] = p.String()
	}
	s := typeParamsString(t.TypeParams) + "(" + strings.Join(parts, ", ") + ")"
	if t.Return != nil {
		s += retSep + str(t.Return, precUnion)
	}
	return s
}

func (t *FuncType) String() string {
	s := t.signature(" => ")
	if t.New {
		s = "new " + s
	}
	return s
}

func (t *Mapped) String() string {
	s := "{ "
	if t.Readonly {
		s += "readonly "
	}
	s += "[" + t.Param + " in " + str(t.Constraint, precUnion) + "]"
	if t.Optional {
		s += "?"
	}
	return s + ": " + str(t.Value, precUnion) + " }"
}

// isIdentifierName reports whether s can be written as a bare property key.
func isIdentifierName(s string) bool {
	if s == "" {
		return false
	}
	for i, r := range s {
		if i == 0 && !isIdentStart(r) || i > 0 && !isIdentPart(r) {
			return false
		}
	}
	return true
}

// jsQuote quotes s as a double-quoted JavaScript string literal.
func jsQuote(s string) string {
	var b strings.Builder
	b.WriteByte('"')
	for _, r := range s {
		switch r {
		case '"':
			b.WriteString(`\"`)
		case '\\':
			b.WriteString(`\\`)
		case '\n':
			b.WriteString(`\n`)
		case '\r':
			b.WriteString(`\r`)
		case '\t':
			b.WriteString(`\t`)
		case '\u2028', '\u2029':
			fmt.Fprintf(&b, `\u%04x`, r)
		default:
			if r < 0x20 || r == 0x7f {
				fmt.Fprintf(&b, `\u%04x`, r)
			} else {
				b.WriteRune(r)
			}
		}
	}
	b.WriteByte('"')
	return b.String()
}
