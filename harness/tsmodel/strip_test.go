package tsmodel

import (
	"encoding/json"
	"os"
	"os/exec"
	"path/filepath"
	"reflect"
	"strings"
	"testing"
)

func mustStrip(t *testing.T, src string) *StripResult {
	t.Helper()
	r, err := Strip(src)
	if err != nil {
		t.Fatalf("Strip: %v\nsource:\n%s", err, src)
	}
	if a, b := strings.Count(src, "\n"), strings.Count(r.JS, "\n"); a != b {
		t.Errorf("Strip changed the number of lines from %d to %d\nsource:\n%s\nresult:\n%s", a, b, src, r.JS)
	}
	return r
}

func nodePath(t *testing.T) string {
	t.Helper()
	for _, p := range []string{"/usr/bin/node"} {
		if _, err := os.Stat(p); err == nil {
			return p
		}
	}
	p, err := exec.LookPath("node")
	if err != nil {
		t.Skip("node is not available")
	}
	return p
}

// nodeCheck runs `node --check` on js.
func nodeCheck(t *testing.T, js string) {
	t.Helper()
	node := nodePath(t)
	fn := filepath.Join(t.TempDir(), "stripped.js")
	if err := os.WriteFile(fn, []byte(js), 0o644); err != nil {
		t.Fatal(err)
	}
	if out, err := exec.Command(node, "--check", fn).CombinedOutput(); err != nil {
		t.Errorf("node --check failed: %v\n%s\n--- JS ---\n%s", err, out, js)
	}
}

func nodeRun(t *testing.T, js string) string {
	t.Helper()
	node := nodePath(t)
	fn := filepath.Join(t.TempDir(), "run.js")
	if err := os.WriteFile(fn, []byte(js), 0o644); err != nil {
		t.Fatal(err)
	}
	cmd := exec.Command(node, fn)
	var stderr strings.Builder
	cmd.Stderr = &stderr
	out, err := cmd.Output()
	if err != nil {
		t.Fatalf("node failed: %v\n%s\n--- JS ---\n%s", err, stderr.String(), js)
	}
	return string(out)
}

func TestStripExact(t *testing.T) {
	tests := []struct{ name, src, want string }{
		{"import type", `import type { AxiosResponse } from "axios";`, ``},
		{"default import", "import Axios from \"axios\";\nfoo();", "\nfoo();"},
		{"type alias", "export type A = string;\nconst x = 1;", "\nconst x = 1;"},
		{"type alias without semicolon", "export type A = [boolean,boolean,]\nexport type Int = number & { __opaque__: 'Int' };\nconst x = 1", "\n\nconst x = 1"},
		{"multi line union alias", "export type U = \n\t| { Kind : \"A\", Data: A}\n| { Kind : \"B\", Data: B}\n\t\nconst x = 1", "\n\n\n\t\nconst x = 1"},
		{"interface", "// c\nexport interface S {\n\ta: string,\n}\nconst x = 1;", "// c\n\n\n\nconst x = 1;"},
		{"as const", "export const X = {\n\tA : 0,\nB : \"as const\",\n} as const;", "const X = {\n\tA : 0,\nB : \"as const\",\n};"},
		{"annotated const", `export const L: Record<X, string> = { [X.A]: "a", };`, `const L = { [X.A]: "a", };`},
		{"scalar const", `export const N: number = 5 as const`, `const N = 5`},
		{"declare", "declare const Axios: AxiosStatic;\nexport default Axios;\nexport { A, B as C };", "\n\n"},
		{"class header", `export abstract class C<T> extends Base<T> implements I, J<T> { }`, `class C extends Base  { }`},
		{"default class", `export default class C {}`, `class C {}`},
		{"plain class untouched", "class C extends B {\n  m(a, b = 2, ...c) { return a }\n}", "class C extends B {\n  m(a, b = 2, ...c) { return a }\n}"},
		{"abstract members", "abstract class C {\n\tabstract protected h(error: any): void\n\n\tabstract p: string;\n\tm() {}\n}", "class C {\n\t\n\n\t\n\tm() {}\n}"},
		{"member modifiers", `class C { public static async m(): Promise<void> {} private readonly x: number = 1; protected override y?: string; z!: Foo; declare w: string; }`,
			`class C { static async m() {} x = 1; y; z;  }`},
		{"method signature", `class C { m<T>(a: T, b?: number, c: string = "x", ...d: T[]): T[] { return d } }`, `class C { m(a, b, c = "x", ...d) { return d } }`},
		{"object param type", `class C { async M(params: {"id-1": Int, "b": boolean}, file: File) { return params["id-1"] } }`, `class C { async M(params, file) { return params["id-1"] } }`},
		{"overloads", "class C {\n m(a: string): void;\n m(a: number): void;\n m(a: any) {}\n}", "class C {\n \n \n m(a) {}\n}"},
		{"accessors", `class C { get v(): number { return 1 } set v(x: number) {} static #p: number = 1; }`, `class C { get v() { return 1 } set v(x) {} static #p = 1; }`},
		{"index signature", `class C { [k: string]: any; m() {} }`, `class C {  m() {} }`},
		{"ctor properties", `class C { constructor(protected baseUrl: string, private readonly tok: string, plain: number, public opt?: boolean) {} }`,
			`class C { constructor(baseUrl, tok, plain, opt) { this.baseUrl = baseUrl; this.tok = tok; this.opt = opt;} }`},
		{"ctor properties with body", "class C {\n constructor(private a: A) {\n  this.b = a;\n }\n}", "class C {\n constructor(a) { this.a = a;\n  this.b = a;\n }\n}"},
		{"ctor properties after super", `class D extends C { constructor(private a: A, b: B) { log(); super(b); this.c = 1; } }`, `class D extends C { constructor(a, b) { log(); super(b); this.a = a; this.c = 1; } }`},
		{"ctor properties after super without semicolon", "class D extends C { constructor(private a: A) { super()\n } }", "class D extends C { constructor(a) { super(); this.a = a;\n } }"},
		{"ctor without properties untouched", `class D extends C { constructor(a: A) { super(a); } }`, `class D extends C { constructor(a) { super(a); } }`},
		{"body annotations", "class C { async m() {\n const rep:AxiosResponse<( Int[] | null)> =  await Axios.get(u);\n let a: Foo, b = 2;\n var c: Record<string, Int>;\n const {x, y}: P = rep;\n for (const k: string of keys) {}\n return rep.data;\n} }",
			"class C { async m() {\n const rep =  await Axios.get(u);\n let a, b = 2;\n var c;\n const {x, y} = rep;\n for (const k of keys) {}\n return rep.data;\n} }"},
		{"casts", "class C { m(x) {\n const a = x as Foo;\n f(x as Bar<Baz>, (x as any).y, [x as number]);\n const o = { k: x as string };\n return x as unknown as T\n} }",
			"class C { m(x) {\n const a = x;\n f(x, (x).y, [x]);\n const o = { k: x };\n return x\n} }"},
		{"not casts", "class C { m(as, o) { const s = \"x as T\"; o.as = as; return { as: 1, b: as } /* x as T */ } }", "class C { m(as, o) { const s = \"x as T\"; o.as = as; return { as: 1, b: as } /* x as T */ } }"},
		{"satisfies and catch", `class C { m() { try { return {} satisfies Foo; } catch (e: unknown) { throw e } } }`, `class C { m() { try { return {}; } catch (e) { throw e } } }`},
		{"arrow functions", `class C { m() { return xs.map((x: number, i?: number): string => f(x)).then(async (r: AxiosResponse<T>) => r.data, (e) => null) } }`,
			`class C { m() { return xs.map((x, i) => f(x)).then(async (r) => r.data, (e) => null) } }`},
		{"not arrow functions", `class C { m(a, b) { if (a) { return (a, b) } return f(a)(b) } }`, `class C { m(a, b) { if (a) { return (a, b) } return f(a)(b) } }`},
		{"nested function", `class C { m() { function g<T>(a: T, b: number = 1): T { return a } return g } }`, `class C { m() { function g(a, b = 1) { return a } return g } }`},
		{"generic new", `class C { m() { return new Map<string, Int[]>() } }`, `class C { m() { return new Map() } }`},
		{"strings templates regexes braces", "class C { m() { const a = \"}\"; const b = '{'; const c = `}${ `{` + \"}\" }{`; const d = /[}]\\}/g; return a } n() {} }",
			"class C { m() { const a = \"}\"; const b = '{'; const c = `}${ `{` + \"}\" }{`; const d = /[}]\\}/g; return a } n() {} }"},
		{"comments are kept", "/** doc */\nclass C {\n // c: T\n m() { /* x as T */ } }", "/** doc */\nclass C {\n // c: T\n m() { /* x as T */ } }"},
		{"tolerant top level", "export function f(a: A): B { return a as B }\nlet v: number = 1\nexport let w = 2;\nconsole.log(v)\nexport async function g() {}",
			"function f(a) { return a }\nlet v = 1\nlet w = 2;\nconsole.log(v)\nasync function g() {}"},
		{"type used as identifier", "type = 5;\ninterface\n= 1", "type = 5;\ninterface\n= 1"},
		{"static block", `class C { static { const a: number = 1; C.a = a as any; } }`, `class C { static { const a = 1; C.a = a; } }`},
	}
	for _, tc := range tests {
		r, err := Strip(tc.src)
		if err != nil {
			t.Errorf("%s: Strip: %v", tc.name, err)
			continue
		}
		if r.JS != tc.want {
			t.Errorf("%s:\n got %q\nwant %q", tc.name, r.JS, tc.want)
		}
		if a, b := strings.Count(tc.src, "\n"), strings.Count(r.JS, "\n"); a != b {
			t.Errorf("%s: line count changed from %d to %d", tc.name, a, b)
		}
	}
}

func TestStripErrors(t *testing.T) {
	tests := []struct{ src, msg string }{
		{"export type (X[] | null) = []", "expected the name of the type alias"},
		{"export abstract class C { m(a: ) {} }", "expected a type"},
		{"export abstract class C { m() { ", "not closed"},
		{"class C { m() { return \"\\U0001F600\" } }", "invalid escape sequence"},
		{"foo(", "unbalanced"},
		{"}", "unbalanced"},
		{"class C { abstract m(): void }", "abstract class"},
	}
	for _, tc := range tests {
		r, err := Strip(tc.src)
		se, ok := err.(*SyntaxError)
		if !ok || !strings.Contains(se.Msg, tc.msg) {
			t.Errorf("Strip(%q) = %v, %v; want *SyntaxError containing %q", tc.src, r, err, tc.msg)
		}
	}
}

// Raw output of GenerateAxios written by hand from the templates of axios_api.go.
const rawClient = `
	// Code generated by gomacro/typescript/axios_api.go. DO NOT EDIT

	import type { AxiosResponse } from "axios";
	import Axios from "axios";

	export type Int = number & { __opaque__: 'Int' };
// pkg.Kind
			export const Kind = {
				A : 0,
B : -1,
			} as const;
			export type Kind = (typeof Kind)[keyof typeof Kind];

			export const KindLabels: Record<Kind, string> = {
				[Kind.A]: "a as const",
[Kind.B]: "",
			};

// pkg.Out
export interface Out {
				Id: Int,
	Kinds: ( Kind[] | null),
		}


	/** AbstractAPI provides auto-generated API calls and should be used
		as base class for an app controller.
	*/
	export abstract class AbstractAPI {
		constructor(protected baseUrl: string, protected authToken: string) {}

		abstract protected handleError(error: any): void

		abstract protected startRequest(): void

		getHeaders() {
			return { Authorization: "Bearer " + this.authToken }
		}


	/** GetOut performs the request and handles the error */
	async GetOut(params: {"id-1": Int, "b": boolean, "s": string, "f": number}) {
		const fullUrl = this.baseUrl + "/api/out/{x}";
		this.startRequest();
		try {
			const rep:AxiosResponse<Out> =  await Axios.get(fullUrl, { headers: this.getHeaders(), params: { "id-1": String(params["id-1"]), "b": params["b"] ? 'ok' : '', "s": params["s"], "f": String(params["f"]) } });
			return rep.data;
		} catch (error) {
			this.handleError(error);
		}
	}


	/** Delete performs the request and handles the error */
	async Delete(params: {"id": Int}) {
		const fullUrl = this.baseUrl + "/api/out";
		this.startRequest();
		try {
			 await Axios.delete(fullUrl, { headers: this.getHeaders(), params: { "id": String(params["id"]) } });
			return true;
		} catch (error) {
			this.handleError(error);
		}
	}


	/** Upload performs the request and handles the error */
	async Upload(formParams: {"name": string}, file: File, formValue: (Record<Int,Out> | null)) {
		const fullUrl = this.baseUrl + "/api/upload";
		this.startRequest();
		try {
			const formData = new FormData()
formData.append("the-file", file, file.name)
formData.append("name", formParams["name"])
formData.append("meta", JSON.stringify(formValue))
 const rep:AxiosResponse<never> =  await Axios.post(fullUrl, formData, { headers: this.getHeaders() });
			return rep.data;
		} catch (error) {
			this.handleError(error);
		}
	}


	/** Download performs the request and handles the error */
	async Download() {
		const fullUrl = this.baseUrl + "/api/download";
		this.startRequest();
		try {
			const rep:AxiosResponse<Blob> =  await Axios.get(fullUrl, { headers: this.getHeaders(), responseType: 'arraybuffer' });

		const header = rep.headers["content-disposition"]
		const startIndex = header.indexOf("filename=") + 9;
		const endIndex = header.length;
		const filename = decodeURIComponent(header.substring(startIndex, endIndex));
		return { blob: rep.data, filename: filename};

		} catch (error) {
			this.handleError(error);
		}
	}


	/** Save performs the request and handles the error */
	async Save(params: Out) {
		const fullUrl = this.baseUrl + "/api/save";
		this.startRequest();
		try {
			const rep:AxiosResponse<( Out[] | null)> =  await Axios.put(fullUrl, params, { headers: this.getHeaders() });
			return rep.data;
		} catch (error) {
			this.handleError(error);
		}
	}

	}`

func TestStripHandWrittenRawClient(t *testing.T) {
	f := mustParse(t, rawClient)
	if _, errs := NewEnv(f); len(errs) != 0 {
		t.Errorf("NewEnv: %v", errs)
	}
	c := f.Class
	if c == nil || c.Name != "AbstractAPI" || len(c.Methods) != 8 {
		t.Fatalf("class: %+v", c)
	}
	up := c.Methods[5]
	if up.Name != "Upload" || len(up.Params) != 3 || up.Params[2].Type.String() != "Record<Int, Out> | null" || up.Params[1].Type.String() != "File" {
		t.Errorf("Upload: %+v", up)
	}
	if a := up.BodyAnnotations; len(a) != 1 || a[0].Name != "rep" || a[0].Type.String() != "AxiosResponse<never>" {
		t.Errorf("Upload annotations: %+v", a)
	}
	if got := c.Methods[3].Params[0].Type.String(); got != `{ "id-1": Int; "b": boolean; "s": string; "f": number }` {
		t.Errorf("GetOut params: %s", got)
	}

	r := mustStrip(t, rawClient)
	if !reflect.DeepEqual(r.Imports, []string{"Axios"}) || !reflect.DeepEqual(r.ClassNames, []string{"AbstractAPI"}) || !reflect.DeepEqual(r.ConstNames, []string{"Kind", "KindLabels"}) {
		t.Errorf("result: %v %v %v", r.Imports, r.ClassNames, r.ConstNames)
	}
	for _, gone := range []string{"import", "export", "abstract", "protected", "AxiosResponse", "interface", ": string", "as const;", "typeof"} {
		if strings.Contains(r.JS, gone) {
			t.Errorf("stripped JS still contains %q", gone)
		}
	}
	for _, kept := range []string{
		`constructor(baseUrl, authToken) { this.baseUrl = baseUrl; this.authToken = authToken;}`,
		`async GetOut(params) {`, `async Upload(formParams, file, formValue) {`, ` const rep =  await Axios.post(fullUrl, formData, `,
		`[Kind.A]: "a as const",`, "const Kind = {", "const KindLabels = {", "\t\t\t};", `/** Save performs the request and handles the error */`,
		`"id-1": String(params["id-1"]), "b": params["b"] ? 'ok' : ''`,
	} {
		if !strings.Contains(r.JS, kept) {
			t.Errorf("stripped JS lacks %q", kept)
		}
	}
	// every line that survives is at the same line number
	srcLines, jsLines := strings.Split(rawClient, "\n"), strings.Split(r.JS, "\n")
	for i, l := range jsLines {
		if strings.TrimSpace(l) != "" && !strings.Contains(srcLines[i], strings.TrimSpace(l)) && !strings.Contains(l, "this.baseUrl = baseUrl") && !strings.Contains(l, "const rep =") &&
			!strings.Contains(l, "async ") && !strings.Contains(l, "class ") && !strings.Contains(l, "const Kind") && !strings.Contains(l, "};") {
			t.Errorf("line %d %q does not come from source line %q", i+1, l, srcLines[i])
		}
	}
	nodeCheck(t, r.JS)
}

func TestStripRepoAxiosStub(t *testing.T) {
	b, err := os.ReadFile("/repo/analysis/httpapi/test/axios.ts")
	if err != nil {
		t.Skip(err)
	}
	f := mustParse(t, string(b))
	if len(f.Decls) != 20 || f.DefaultExport != "Axios" {
		t.Errorf("decls %d, default export %q", len(f.Decls), f.DefaultExport)
	}
	env, _ := NewEnv(f)
	inst, ok := env.Lookup("AxiosInstance")
	if !ok || len(inst.(*ObjectType).Members) != 13 {
		t.Errorf("AxiosInstance: %v", inst)
	}
	if m := env.Inhabits(decode(t, `{"data":[1],"status":200,"statusText":"OK","headers":null,"config":{"url":"u","method":"get"}}`), "AxiosResponse"); m != nil {
		t.Errorf("AxiosResponse: %v", m)
	}
	ty, _ := ParseType("AxiosResponse<string>")
	if m := env.InhabitsType(decode(t, `{"data":1,"status":200,"statusText":"OK","headers":null,"config":{}}`), ty); m == nil || m.Path != "$.data" {
		t.Errorf("AxiosResponse<string>: %v", m)
	}
	r := mustStrip(t, string(b))
	if strings.TrimSpace(r.JS) != "" {
		t.Errorf("the stub has only type level content, got %q", r.JS)
	}
	nodeCheck(t, r.JS)
}

const harnessJS = `
"use strict";
function load(Axios, FormData) {
%STRIPPED%
	return { AbstractAPI };
}
const calls = [], log = [];
class FakeFormData {
	constructor() { this.entries = []; }
	append(...args) { this.entries.push(args.map(a => (a && typeof a === "object") ? "file:" + a.name : a)); }
}
function record(method, url, body, cfg) {
	calls.push({ method, url, body: body instanceof FakeFormData ? { form: body.entries } : body, cfg });
	if (cfg && cfg.params && cfg.params.arg1 === "fail") { throw new Error("boom"); }
	if (cfg && cfg.responseType === "arraybuffer") {
		return { data: "bytes", headers: { "content-disposition": "attachment; filename=a%20b.txt" } };
	}
	return { data: { echoed: url }, headers: {} };
}
const fakeAxios = {
	get: async (url, cfg) => record("get", url, undefined, cfg),
	delete: async (url, cfg) => record("delete", url, undefined, cfg),
	post: async (url, body, cfg) => record("post", url, body, cfg),
	put: async (url, body, cfg) => record("put", url, body, cfg),
};
const { AbstractAPI } = load(fakeAxios, FakeFormData);
class API extends AbstractAPI {
	handleError(error) { log.push("error:" + error.message); }
	startRequest() { log.push("start"); }
}
(async () => {
	const api = new API("http://host", "tok");
	const out = {};
	out.baseUrl = api.baseUrl;
	out.m1 = await api.M1([true, false, true, false, true]);
	out.m2 = await api.M2({ "arg1": "s", "arg-2": 42, "arg2bis": 1.5, "arg3": true });
	out.m2false = await api.M2({ "arg1": "s", "arg-2": 0, "arg2bis": 0, "arg3": false });
	out.m2fail = await api.M2({ "arg1": "fail", "arg-2": 0, "arg2bis": 0, "arg3": false });
	out.m3 = await api.M3();
	out.m4 = await api.M4({ "a": "va", "b": "vb" }, { name: "f.txt" }, { "k": 1 });
	out.m5 = await api.M5();
	console.log(JSON.stringify({ out, calls, log }));
})().catch(e => { console.error(e); process.exit(1); });
`

// The real raw output of GenerateAxios (testdata/axios_raw.ts, produced from
// the unmodified generator) is stripped and executed against a fake Axios.
func TestStripAndRunGeneratedClient(t *testing.T) {
	b, err := os.ReadFile("testdata/axios_raw.ts")
	if err != nil {
		t.Fatal(err)
	}
	r := mustStrip(t, string(b))
	if !reflect.DeepEqual(r.Imports, []string{"Axios"}) || !reflect.DeepEqual(r.ClassNames, []string{"AbstractAPI"}) {
		t.Errorf("result: %v %v", r.Imports, r.ClassNames)
	}
	nodeCheck(t, r.JS)
	out := nodeRun(t, strings.Replace(harnessJS, "%STRIPPED%", r.JS, 1))

	var got struct {
		Out   map[string]any
		Calls []struct {
			Method, URL string
			Body        any
			Cfg         map[string]any
		}
		Log []string
	}
	if err := json.Unmarshal([]byte(out), &got); err != nil {
		t.Fatalf("bad output %q: %v", out, err)
	}
	wantOut := map[string]any{
		"baseUrl": "http://host",
		"m1":      map[string]any{"echoed": "http://host/samlskm/"},
		"m2":      true, "m2false": true,
		"m3": map[string]any{"blob": "bytes", "filename": "a b.txt"},
		"m4": map[string]any{"echoed": "http://host/form"},
		"m5": map[string]any{"echoed": "http://host/put"},
	}
	if !reflect.DeepEqual(got.Out, wantOut) { // m2fail is undefined: dropped by JSON.stringify
		t.Errorf("results:\n got %v\nwant %v", got.Out, wantOut)
	}
	if want := []string{"start", "start", "start", "start", "error:boom", "start", "start", "start"}; !reflect.DeepEqual(got.Log, want) {
		t.Errorf("log = %v", got.Log)
	}
	if len(got.Calls) != 7 {
		t.Fatalf("%d calls", len(got.Calls))
	}
	auth := map[string]any{"Authorization": "Bearer tok"}
	for i, c := range got.Calls {
		if !reflect.DeepEqual(c.Cfg["headers"], auth) {
			t.Errorf("call %d: headers %v", i, c.Cfg["headers"])
		}
	}
	c := got.Calls[0]
	if c.Method != "post" || c.URL != "http://host/samlskm/" || !reflect.DeepEqual(c.Body, []any{true, false, true, false, true}) {
		t.Errorf("M1 call: %+v", c)
	}
	c = got.Calls[1]
	if c.Method != "get" || c.URL != "http://host/samlskm/:param1" || !reflect.DeepEqual(c.Cfg["params"], map[string]any{"arg1": "s", "arg-2": "42", "arg2bis": "1.5", "arg3": "ok"}) {
		t.Errorf("M2 call: %+v", c)
	}
	if p := got.Calls[2].Cfg["params"]; !reflect.DeepEqual(p, map[string]any{"arg1": "s", "arg-2": "0", "arg2bis": "0", "arg3": ""}) {
		t.Errorf("M2 call with false: %v", p)
	}
	c = got.Calls[4]
	if c.Method != "get" || c.URL != "http://host/blob" || c.Cfg["responseType"] != "arraybuffer" {
		t.Errorf("M3 call: %+v", c)
	}
	c = got.Calls[5]
	wantForm := map[string]any{"form": []any{[]any{"up", "file:f.txt", "f.txt"}, []any{"a", "va"}, []any{"b", "vb"}, []any{"js", `{"k":1}`}}}
	if c.Method != "post" || c.URL != "http://host/form" || !reflect.DeepEqual(c.Body, wantForm) {
		t.Errorf("M4 call: %+v", c)
	}
	c = got.Calls[6]
	if c.Method != "put" || c.URL != "http://host/put" || c.Body != nil {
		t.Errorf("M5 call: %+v", c)
	}
}

// The stripped declarations are usable values.
func TestStripAndRunConsts(t *testing.T) {
	r := mustStrip(t, rawTemplates2)
	nodeCheck(t, r.JS)
	out := nodeRun(t, r.JS+"\nconsole.log(JSON.stringify({Color, ColorLabels, ShapeKind, n: Object.keys(ColorLabels).length}));")
	want := `{"Color":{"Red":-1,"Green":0,"Blue":1000000},"ColorLabels":{"0":"","1000000":"blue","-1":"red"},"ShapeKind":{"Circle":"Circle"},"n":3}`
	if strings.TrimSpace(out) != want {
		t.Errorf("got %s\nwant %s", out, want)
	}
}

const rawTemplates2 = `// pkg.Color
			export const Color = {
				Red : -1,
Green : 0,
Blue : 1e+06,
			} as const;
			export type Color = (typeof Color)[keyof typeof Color];

			export const ColorLabels: Record<Color, string> = {
				[Color.Red]: "red",
[Color.Green]: "",
[Color.Blue]: "blue",
			};

	export const ShapeKind = {
		Circle: "Circle"
	} as const;
	export type ShapeKind = (typeof ShapeKind)[keyof typeof ShapeKind];

	// pkg.Shape
	export type Shape =
	| { Kind : "Circle", Data: Circle}

export interface Circle {
				R: number,
		}
`
