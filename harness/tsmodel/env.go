package tsmodel

import (
	"fmt"
	"sort"
	"strings"
)

// DeclError is a declaration level error found by NewEnv.
type DeclError struct {
	Name string
	Line int
	Msg  string
}

func (e *DeclError) Error() string {
	if e.Line > 0 {
		return fmt.Sprintf("line %d: %s: %s", e.Line, e.Name, e.Msg)
	}
	return e.Name + ": " + e.Msg
}

var builtinTypes = map[string]bool{
	"string": true, "number": true, "boolean": true, "null": true, "undefined": true, "unknown": true, "any": true,
	"never": true, "void": true, "object": true, "symbol": true, "bigint": true,
	"Record": true, "Array": true, "Promise": true, "AxiosResponse": true, "File": true, "Blob": true, "FormData": true,
	"Partial": true, "Readonly": true,
}

// IsBuiltin reports whether name is one of the type names known without declaration.
func IsBuiltin(name string) bool { return builtinTypes[name] }

// Env is the set of declarations of a file.
type Env struct {
	File *File
	// StrictRecordKeys makes Record<K, V>, with K a finite union of literals,
	// require every key of K to be present, as tsc does. Off by default: Go maps
	// are partial.
	StrictRecordKeys bool

	types   map[string]*Decl // type namespace: type aliases and interfaces
	values  map[string]*Decl // value namespace: consts
	classes map[string]*Class
	imports map[string]bool // imported bindings (opaque)
}

// NewEnv indexes the declarations of f. The returned errors are *DeclError.
// The Env is usable even when errors are reported (the first declaration of a
// name wins).
func NewEnv(f *File) (*Env, []error) {
	e := &Env{File: f, types: map[string]*Decl{}, values: map[string]*Decl{}, classes: map[string]*Class{}, imports: map[string]bool{}}
	var errs []error
	report := func(name string, line int, format string, args ...any) {
		errs = append(errs, &DeclError{Name: name, Line: line, Msg: fmt.Sprintf(format, args...)})
	}
	typeLine, valueLine := map[string]int{}, map[string]int{}
	declare := func(name string, line int, typeNS, valueNS bool, what string) {
		if typeNS {
			if prev, dup := typeLine[name]; dup {
				report(name, line, "%s %s is declared more than once in the type namespace (previous declaration at line %d)", what, name, prev)
			} else {
				typeLine[name] = line
			}
		}
		if valueNS {
			if prev, dup := valueLine[name]; dup {
				report(name, line, "%s %s is declared more than once in the value namespace (previous declaration at line %d)", what, name, prev)
			} else {
				valueLine[name] = line
			}
		}
	}
	for _, imp := range f.Imports {
		names := []string{}
		if imp.Default != "" {
			names = append(names, imp.Default)
		}
		if imp.Namespace != "" {
			names = append(names, imp.Namespace)
		}
		for _, n := range imp.Named {
			names = append(names, n.Alias)
		}
		for _, n := range names {
			if e.imports[n] {
				report(n, imp.Line, "import %s is declared more than once", n)
			}
			e.imports[n] = true
		}
	}
	for _, it := range f.items {
		switch it.kind {
		case itDecl:
			d := it.decl
			switch d.Kind {
			case "const":
				declare(d.Name, d.Line, false, true, "const")
				if _, ok := e.values[d.Name]; !ok {
					e.values[d.Name] = d
				}
			default:
				declare(d.Name, d.Line, true, false, d.Kind)
				if _, ok := e.types[d.Name]; !ok {
					e.types[d.Name] = d
				}
			}
			if e.imports[d.Name] {
				report(d.Name, d.Line, "%s %s conflicts with an import of the same name", d.Kind, d.Name)
			}
		case itClass:
			c := it.class
			if c.Name == "" {
				continue
			}
			declare(c.Name, c.Line, false, true, "class")
			if _, ok := e.classes[c.Name]; !ok {
				e.classes[c.Name] = c
			}
		}
	}

	// references
	seen := map[string]bool{}
	f.walkRefs(func(r *Ref, scope map[string]bool, line int, where string) {
		root, _, _ := strings.Cut(r.Name, ".")
		if scope[root] || builtinTypes[r.Name] || e.types[r.Name] != nil || e.classes[r.Name] != nil || e.imports[root] || r.Name == "this" {
			return
		}
		key := where + "\x00" + r.Name
		if seen[key] {
			return
		}
		seen[key] = true
		report(r.Name, line, "type %s referenced in %s is not declared", r.Name, where)
	}, func(t *TypeOf, line int, where string) {
		root, _, _ := strings.Cut(t.Name, ".")
		if e.values[root] != nil || e.classes[root] != nil || e.imports[root] {
			return
		}
		key := where + "\x00typeof " + t.Name
		if seen[key] {
			return
		}
		seen[key] = true
		report(root, line, "typeof %s in %s: %s is not a declared const", t.Name, where, root)
	})
	return e, errs
}

// Lookup returns the type declared under name in the type namespace: the
// target of a type alias or the body (*ObjectType) of an interface.
func (e *Env) Lookup(name string) (Type, bool) {
	d, ok := e.types[name]
	if !ok {
		return nil, false
	}
	return d.Type, true
}

// LookupDecl returns the declaration of name in the type namespace.
func (e *Env) LookupDecl(name string) (*Decl, bool) {
	d, ok := e.types[name]
	return d, ok
}

// LookupConst returns the const declared under name.
func (e *Env) LookupConst(name string) (*Decl, bool) {
	d, ok := e.values[name]
	return d, ok
}

// TypeNames returns the sorted names of the type namespace.
func (e *Env) TypeNames() []string {
	var out []string
	for n := range e.types {
		out = append(out, n)
	}
	sort.Strings(out)
	return out
}

// ReferencedTypeNames returns the sorted, distinct names of all type
// references used anywhere in type positions: declarations, class signatures
// and annotations inside method bodies. Type parameters in scope are not
// reported; builtin names are (see IsBuiltin).
func (f *File) ReferencedTypeNames() []string {
	set := map[string]bool{}
	f.walkRefs(func(r *Ref, scope map[string]bool, _ int, _ string) {
		root, _, _ := strings.Cut(r.Name, ".")
		if !scope[root] {
			set[r.Name] = true
		}
	}, nil)
	out := make([]string, 0, len(set))
	for n := range set {
		out = append(out, n)
	}
	sort.Strings(out)
	return out
}

type refFunc func(r *Ref, scope map[string]bool, line int, where string)
type typeofFunc func(t *TypeOf, line int, where string)

func withParams(scope map[string]bool, tps []*TypeParam) map[string]bool {
	if len(tps) == 0 {
		return scope
	}
	out := make(map[string]bool, len(scope)+len(tps))
	for k := range scope {
		out[k] = true
	}
	for _, tp := range tps {
		out[tp.Name] = true
	}
	return out
}

// walkRefs visits every Ref and TypeOf of the file.
func (f *File) walkRefs(onRef refFunc, onTypeOf typeofFunc) {
	var walk func(t Type, scope map[string]bool, line int, where string)
	walkTPs := func(tps []*TypeParam, scope map[string]bool, line int, where string) {
		for _, tp := range tps {
			walk(tp.Constraint, scope, line, where)
			walk(tp.Default, scope, line, where)
		}
	}
	walkFunc := func(ft *FuncType, scope map[string]bool, line int, where string) {
		scope = withParams(scope, ft.TypeParams)
		walkTPs(ft.TypeParams, scope, line, where)
		for _, pa := range ft.Params {
			walk(pa.Type, scope, line, where)
		}
		walk(ft.Return, scope, line, where)
	}
	walk = func(t Type, scope map[string]bool, line int, where string) {
		switch t := t.(type) {
		case nil:
		case *Ref:
			if onRef != nil {
				onRef(t, scope, line, where)
			}
			for _, a := range t.Args {
				walk(a, scope, line, where)
			}
		case *Union:
			for _, a := range t.Alts {
				walk(a, scope, line, where)
			}
		case *Intersection:
			for _, a := range t.Parts {
				walk(a, scope, line, where)
			}
		case *ArrayOf:
			walk(t.Elem, scope, line, where)
		case *OptionalElem:
			walk(t.Elem, scope, line, where)
		case *RestElem:
			walk(t.Elem, scope, line, where)
		case *Tuple:
			for _, a := range t.Elems {
				walk(a, scope, line, where)
			}
		case *ObjectType:
			for _, m := range t.Members {
				l := line
				if m.Line > 0 {
					l = m.Line
				}
				walk(m.Type, scope, l, where)
			}
			if t.Index != nil {
				walk(t.Index.Key, scope, line, where)
				walk(t.Index.Value, scope, line, where)
			}
		case *TypeOf:
			if onTypeOf != nil {
				onTypeOf(t, line, where)
			}
		case *KeyOf:
			walk(t.T, scope, line, where)
		case *Indexed:
			walk(t.Obj, scope, line, where)
			walk(t.Index, scope, line, where)
		case *FuncType:
			walkFunc(t, scope, line, where)
		case *Mapped:
			walk(t.Constraint, scope, line, where)
			inner := withParams(scope, []*TypeParam{{Name: t.Param}})
			walk(t.Value, inner, line, where)
		}
	}
	for _, it := range f.items {
		switch it.kind {
		case itDecl:
			d := it.decl
			where := d.Kind + " " + d.Name
			scope := withParams(nil, d.TypeParams)
			walkTPs(d.TypeParams, scope, d.Line, where)
			for _, x := range d.Extends {
				walk(x, scope, d.Line, where)
			}
			walk(d.Type, scope, d.Line, where)
			walk(d.CastType, scope, d.Line, where)
		case itClass:
			c := it.class
			cscope := withParams(nil, c.TypeParams)
			walkTPs(c.TypeParams, cscope, c.Line, "class "+c.Name)
			for _, x := range c.Implements {
				walk(x, cscope, c.Line, "class "+c.Name)
			}
			for _, pr := range c.Props {
				walk(pr.Type, cscope, pr.Line, "property "+c.Name+"."+pr.Name)
			}
			methods := c.Methods
			if c.Ctor != nil {
				methods = append([]*Method{c.Ctor}, methods...)
			}
			for _, m := range methods {
				where := "method " + c.Name + "." + m.Name
				scope := withParams(cscope, m.TypeParams)
				walkTPs(m.TypeParams, scope, m.Line, where)
				for _, pa := range m.Params {
					walk(pa.Type, scope, m.Line, where)
				}
				walk(m.Return, scope, m.Line, where)
				for _, a := range m.BodyAnnotations {
					walk(a.Type, scope, a.Line, where)
				}
			}
		}
	}
}
