package tsmodel

import (
	"encoding/json"
	"fmt"
	"sort"
	"strconv"
	"strings"
)

// Mismatch explains why a JSON document does not inhabit a type.
type Mismatch struct {
	Path     string // e.g. $.Items[2].Kind
	Expected string // the TS type at that point
	Got      string // short JSON
	Reason   string
}

func (m *Mismatch) String() string {
	return fmt.Sprintf("%s: expected %s, got %s: %s", m.Path, m.Expected, m.Got, m.Reason)
}

func (m *Mismatch) Error() string { return m.String() }

// Inhabits checks doc (a tree produced by encoding/json, preferably with
// UseNumber) against the declared (or builtin) type typeName. It returns nil
// if doc inhabits the type.
func (e *Env) Inhabits(doc any, typeName string) *Mismatch {
	if _, ok := e.types[typeName]; !ok && !builtinTypes[typeName] {
		return &Mismatch{Path: "$", Expected: typeName, Got: shortJSON(doc), Reason: "type " + typeName + " is not declared"}
	}
	return e.InhabitsType(doc, &Ref{Name: typeName})
}

// InhabitsType checks doc against an arbitrary type, see ParseType.
func (e *Env) InhabitsType(doc any, t Type) *Mismatch {
	return e.check(doc, t, "$", nil)
}

func shortJSON(doc any) string {
	b, err := json.Marshal(doc)
	if err != nil {
		return fmt.Sprintf("<%T>", doc)
	}
	s := string(b)
	if len(s) > 80 {
		cut := 77
		for cut > 0 && s[cut]&0xC0 == 0x80 { // do not cut a rune
			cut--
		}
		s = s[:cut] + "..."
	}
	return s
}

func childPath(path, key string) string {
	if isIdentifierName(key) {
		return path + "." + key
	}
	return path + "[" + jsQuote(key) + "]"
}

func pathDepth(p string) int { return strings.Count(p, ".") + strings.Count(p, "[") }

// numberText returns the decimal text of a JSON number value.
func numberText(doc any) (string, bool) {
	switch v := doc.(type) {
	case json.Number:
		return string(v), true
	case float64:
		return strconv.FormatFloat(v, 'g', -1, 64), true
	case float32:
		return strconv.FormatFloat(float64(v), 'g', -1, 32), true
	case int, int8, int16, int32, int64, uint, uint8, uint16, uint32, uint64:
		return fmt.Sprint(v), true
	}
	return "", false
}

func jsonKind(doc any) string {
	switch doc.(type) {
	case nil:
		return "null"
	case bool:
		return "boolean"
	case string:
		return "string"
	case []any:
		return "array"
	case map[string]any:
		return "object"
	}
	if _, ok := numberText(doc); ok {
		return "number"
	}
	return fmt.Sprintf("%T", doc)
}

func expectedString(t, rt Type) string {
	s := t.String()
	if rt != nil {
		if r := rt.String(); r != s && len(r) <= 100 {
			return s + " (= " + r + ")"
		}
	}
	return s
}

func (e *Env) check(doc any, t Type, path string, seen []string) *Mismatch {
	rt, seen, err := e.resolve(t, seen)
	fail := func(format string, args ...any) *Mismatch {
		return &Mismatch{Path: path, Expected: expectedString(t, rt), Got: shortJSON(doc), Reason: fmt.Sprintf(format, args...)}
	}
	if err != nil {
		return fail("cannot evaluate the type: %v", err)
	}
	switch x := rt.(type) {
	case *Ref:
		return e.checkRef(doc, t, x, path, seen, fail)
	case *Literal:
		switch x.Kind {
		case "string":
			if s, ok := doc.(string); ok && s == x.Str {
				return nil
			}
		case "number":
			if n, ok := numberText(doc); ok && numbersEqual(n, x.Num) {
				return nil
			}
		case "boolean":
			if b, ok := doc.(bool); ok && b == x.Bool {
				return nil
			}
		}
		return fail("value is not the literal %s", x)
	case *Union:
		// The mismatch reported is the one of the closest alternative: an
		// alternative whose discriminants (literal typed members) match the
		// document, else the one failing the deepest.
		var best *Mismatch
		bestDisc := false
		for _, alt := range x.Alts {
			m := e.check(doc, alt, path, seen)
			if m == nil {
				return nil
			}
			disc := e.discriminantsMatch(doc, alt, seen)
			if best == nil || disc && !bestDisc || disc == bestDisc && pathDepth(m.Path) > pathDepth(best.Path) {
				best, bestDisc = m, disc
			}
		}
		if best != nil && (bestDisc || pathDepth(best.Path) > pathDepth(path)) {
			c := *best
			if !strings.HasPrefix(c.Reason, "no alternative of the union") {
				c.Reason = "no alternative of the union " + truncate(t.String(), 60) + " matches; closest: " + best.Reason
			}
			return &c
		}
		return fail("%s value matches no alternative of the union", jsonKind(doc))
	case *Intersection:
		return e.checkIntersection(doc, x, path, seen, fail)
	case *ArrayOf:
		arr, ok := doc.([]any)
		if !ok {
			return fail("expected an array, got %s", jsonKind(doc))
		}
		for i, el := range arr {
			if m := e.check(el, x.Elem, fmt.Sprintf("%s[%d]", path, i), nil); m != nil {
				return m
			}
		}
		return nil
	case *Tuple:
		return e.checkTuple(doc, x, path, fail)
	case *ObjectType:
		return e.checkObject(doc, x, path, fail)
	case *Mapped:
		return e.checkRecord(doc, x.Constraint, func(key string) Type {
			return subst(x.Value, map[string]Type{x.Param: &Literal{Kind: "string", Str: key}})
		}, !x.Optional, path, seen, fail)
	case *FuncType:
		return fail("function types have no JSON representation")
	case *OptionalElem, *RestElem:
		return fail("optional and rest elements are only allowed in tuples")
	}
	return fail("unsupported type %T", rt)
}

type failFunc func(format string, args ...any) *Mismatch

func (e *Env) checkRef(doc any, orig Type, x *Ref, path string, seen []string, fail failFunc) *Mismatch {
	switch x.Name {
	case "string":
		if _, ok := doc.(string); !ok {
			return fail("expected a string, got %s", jsonKind(doc))
		}
		return nil
	case "number":
		if _, ok := numberText(doc); !ok {
			return fail("expected a number, got %s", jsonKind(doc))
		}
		return nil
	case "boolean":
		if _, ok := doc.(bool); !ok {
			return fail("expected a boolean, got %s", jsonKind(doc))
		}
		return nil
	case "null":
		if doc != nil {
			return fail("expected null, got %s", jsonKind(doc))
		}
		return nil
	case "unknown", "any":
		return nil
	case "never":
		return fail("no value inhabits never")
	case "undefined", "void":
		return fail("JSON has no value for %s", x.Name)
	case "object":
		switch doc.(type) {
		case map[string]any, []any:
			return nil
		}
		return fail("expected a non-primitive value, got %s", jsonKind(doc))
	case "symbol", "bigint":
		return fail("%s has no JSON representation", x.Name)
	case "Record":
		if len(x.Args) != 2 {
			return fail("Record requires 2 type arguments")
		}
		return e.checkRecord(doc, x.Args[0], func(string) Type { return x.Args[1] }, e.StrictRecordKeys, path, seen, fail)
	case "Promise", "AxiosResponse", "File", "Blob", "FormData":
		return fail("host type %s has no JSON representation", x.Name)
	}
	switch {
	case e.classes[x.Name] != nil:
		return fail("class type %s has no JSON representation", x.Name)
	case e.imports[strings.SplitN(x.Name, ".", 2)[0]]:
		return fail("imported type %s is opaque", x.Name)
	}
	return fail("type %s is not declared", x.Name)
}

// keyAdmissible reports whether the object key is admissible for the Record
// key type k.
func (e *Env) keyAdmissible(key string, k Type, seen []string) (bool, error) {
	rk, seen, err := e.resolve(k, seen)
	if err != nil {
		return false, err
	}
	switch x := rk.(type) {
	case *Ref:
		switch x.Name {
		case "string", "any", "unknown":
			return true, nil
		case "number":
			return isJSONNumber(key), nil
		}
		return false, nil
	case *Literal:
		switch x.Kind {
		case "string":
			return key == x.Str, nil
		case "number":
			return isJSONNumber(key) && numbersEqual(key, x.Num), nil
		}
		return false, nil
	case *Union:
		for _, a := range x.Alts {
			ok, err := e.keyAdmissible(key, a, seen)
			if err != nil || ok {
				return ok, err
			}
		}
		return false, nil
	case *Intersection:
		if base, ok := e.brandBase(x, seen); ok {
			return e.keyAdmissible(key, base, seen)
		}
		for _, p := range x.Parts {
			ok, err := e.keyAdmissible(key, p, seen)
			if err != nil || !ok {
				return false, err
			}
		}
		return true, nil
	}
	return false, nil
}

// finiteKeys lists the keys of a key type made only of literals.
func (e *Env) finiteKeys(k Type, seen []string) ([]string, bool) {
	var flat []Type
	if err := e.flattenKeys(k, seen, &flat); err != nil || len(flat) == 0 {
		return nil, false
	}
	var out []string
	for _, t := range flat {
		key, ok := litKey(t)
		if !ok {
			return nil, false
		}
		out = append(out, key)
	}
	return out, true
}

func (e *Env) checkRecord(doc any, k Type, valueType func(key string) Type, requireAll bool, path string, seen []string, fail failFunc) *Mismatch {
	obj, ok := doc.(map[string]any)
	if !ok {
		return fail("expected an object, got %s", jsonKind(doc))
	}
	keys := make([]string, 0, len(obj))
	for key := range obj {
		keys = append(keys, key)
	}
	sort.Strings(keys)
	for _, key := range keys {
		ok, err := e.keyAdmissible(key, k, seen)
		if err != nil {
			return fail("cannot evaluate the key type %s: %v", k, err)
		}
		if !ok {
			rk, _ := e.Resolve(k)
			return &Mismatch{Path: childPath(path, key), Expected: expectedString(k, rk), Got: jsQuote(key), Reason: fmt.Sprintf("key %s is not admissible for the key type %s", jsQuote(key), k)}
		}
		if m := e.check(obj[key], valueType(key), childPath(path, key), nil); m != nil {
			return m
		}
	}
	if requireAll {
		if want, finite := e.finiteKeys(k, seen); finite {
			for _, w := range want {
				found := false
				for _, key := range keys {
					if key == w || isJSONNumber(key) && isJSONNumber(w) && numbersEqual(key, w) {
						found = true
					}
				}
				if !found {
					return fail("missing key %s required by the key type %s", jsQuote(w), k)
				}
			}
		}
	}
	return nil
}

func (e *Env) checkTuple(doc any, x *Tuple, path string, fail failFunc) *Mismatch {
	arr, ok := doc.([]any)
	if !ok {
		return fail("expected an array (tuple), got %s", jsonKind(doc))
	}
	required, hasRest := 0, false
	for i, el := range x.Elems {
		switch el.(type) {
		case *RestElem:
			if i != len(x.Elems)-1 {
				return fail("rest elements are only supported in last position")
			}
			hasRest = true
		case *OptionalElem:
		default:
			required = i + 1
		}
	}
	max := len(x.Elems)
	if hasRest {
		max--
	}
	if len(arr) < required || !hasRest && len(arr) > max {
		return fail("tuple of length %d expected, got an array of length %d", len(x.Elems), len(arr))
	}
	for i, el := range arr {
		var et Type
		if i < max {
			et = tupleElemType(x.Elems[i])
		} else {
			et = tupleElemType(x.Elems[len(x.Elems)-1])
		}
		if m := e.check(el, et, fmt.Sprintf("%s[%d]", path, i), nil); m != nil {
			return m
		}
	}
	return nil
}

func (e *Env) checkObject(doc any, x *ObjectType, path string, fail failFunc) *Mismatch {
	obj, ok := doc.(map[string]any)
	if !ok {
		return fail("expected an object, got %s", jsonKind(doc))
	}
	declared := map[string]bool{}
	for _, m := range x.Members {
		switch m.Kind {
		case "call", "construct":
			return fail("an object type with a %s signature has no JSON representation", m.Kind)
		}
		if declared[m.Key] {
			return fail("property %s is declared twice in the object type", jsQuote(m.Key))
		}
		declared[m.Key] = true
	}
	for _, m := range x.Members {
		v, present := obj[m.Key]
		if !present {
			if m.Optional {
				continue
			}
			return &Mismatch{Path: path, Expected: expectedString(x, nil), Got: shortJSON(doc), Reason: fmt.Sprintf("missing property %s", jsQuote(m.Key))}
		}
		if mm := e.check(v, m.Type, childPath(path, m.Key), nil); mm != nil {
			return mm
		}
	}
	var extra []string
	for key := range obj {
		if !declared[key] {
			extra = append(extra, key)
		}
	}
	sort.Strings(extra)
	for _, key := range extra {
		if x.Index == nil {
			return &Mismatch{Path: childPath(path, key), Expected: "never", Got: shortJSON(obj[key]), Reason: fmt.Sprintf("extra property %s is not declared in %s", jsQuote(key), truncate(x.String(), 100))}
		}
		ok, err := e.keyAdmissible(key, x.Index.Key, nil)
		if err != nil {
			return fail("cannot evaluate the index signature: %v", err)
		}
		if !ok {
			return &Mismatch{Path: childPath(path, key), Expected: x.Index.Key.String(), Got: jsQuote(key), Reason: fmt.Sprintf("key %s is not admissible for the index signature", jsQuote(key))}
		}
		if mm := e.check(obj[key], x.Index.Value, childPath(path, key), nil); mm != nil {
			return mm
		}
	}
	return nil
}

// discriminantsMatch reports whether alt is an object type with at least one
// literal typed member and doc is an object agreeing with all of them.
func (e *Env) discriminantsMatch(doc any, alt Type, seen []string) bool {
	obj, ok := doc.(map[string]any)
	if !ok {
		return false
	}
	rt, _, err := e.resolve(alt, seen)
	if err != nil {
		return false
	}
	ot, ok := rt.(*ObjectType)
	if !ok {
		return false
	}
	n := 0
	for _, m := range ot.Members {
		mt, _, err := e.resolve(m.Type, nil)
		if err != nil {
			continue
		}
		if _, isLit := mt.(*Literal); !isLit {
			continue
		}
		v, present := obj[m.Key]
		if !present || e.check(v, mt, "$", nil) != nil {
			return false
		}
		n++
	}
	return n > 0
}

func truncate(s string, n int) string {
	if len(s) <= n {
		return s
	}
	cut := n - 3
	for cut > 0 && s[cut]&0xC0 == 0x80 {
		cut--
	}
	return s[:cut] + "..."
}

func (e *Env) checkIntersection(doc any, x *Intersection, path string, seen []string, fail failFunc) *Mismatch {
	if base, ok := e.brandBase(x, seen); ok {
		if m := e.check(doc, base, path, seen); m != nil {
			m.Expected = expectedString(x, nil)
			return m
		}
		return nil
	}
	merged := &ObjectType{}
	byKey := map[string]*Member{}
	hasObject := false
	for _, part := range x.Parts {
		rp, s2, err := e.resolve(part, seen)
		if err != nil {
			return fail("cannot evaluate the type: %v", err)
		}
		obj, ok := rp.(*ObjectType)
		if !ok {
			if m := e.check(doc, rp, path, s2); m != nil {
				return m
			}
			continue
		}
		hasObject = true
		for _, m := range obj.Members {
			if prev, dup := byKey[m.Key]; dup && m.Key != "" {
				prev.Type = &Intersection{Parts: []Type{prev.Type, m.Type}}
				prev.Optional = prev.Optional && m.Optional
				continue
			}
			c := *m
			byKey[m.Key] = &c
			merged.Members = append(merged.Members, &c)
		}
		if merged.Index == nil {
			merged.Index = obj.Index
		}
	}
	if hasObject {
		return e.checkObject(doc, merged, path, fail)
	}
	return nil
}
