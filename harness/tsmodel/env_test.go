package tsmodel

import (
	"reflect"
	"sort"
	"strings"
	"testing"
)

func envErrors(t *testing.T, src string) (*Env, []string) {
	t.Helper()
	f := mustParse(t, src)
	env, errs := NewEnv(f)
	var out []string
	for _, err := range errs {
		de, ok := err.(*DeclError)
		if !ok {
			t.Fatalf("error %v is %T, want *DeclError", err, err)
		}
		if de.Name == "" || de.Msg == "" || de.Error() == "" {
			t.Errorf("incomplete DeclError %+v", de)
		}
		out = append(out, de.Name+": "+de.Msg)
	}
	return env, out
}

func TestNewEnvErrors(t *testing.T) {
	tests := []struct {
		name string
		src  string
		want []string // substrings, one per expected error, in order
	}{
		{"clean enum shares name across namespaces",
			"export const X = { A: 0 } as const;\nexport type X = (typeof X)[keyof typeof X];\nexport const XLabels: Record<X, string> = { [X.A]: \"a\" };", nil},
		{"duplicate type alias",
			"export type A = string\nexport type A = number", []string{"A: type A is declared more than once in the type namespace (previous declaration at line 1)"}},
		{"duplicate interface and alias",
			"export interface A { a: string }\nexport type A = number", []string{"A: type A is declared more than once in the type namespace"}},
		{"duplicate interfaces",
			"export interface A { a: string }\nexport interface A { b: string }", []string{"A: interface A is declared more than once"}},
		{"duplicate const",
			"export const K = { A: 1 } as const;\nexport const K = { B: 2 } as const;", []string{"K: const K is declared more than once in the value namespace"}},
		{"triple declaration gives two errors",
			"type A = 1\ntype A = 2\ntype A = 3", []string{"A: type A is declared more than once", "A: type A is declared more than once"}},
		{"const and class collide",
			"const C = 1\nclass C {}", []string{"C: class C is declared more than once in the value namespace"}},
		{"type and class do not collide", "type C = 1\nclass C {}", nil},
		{"undeclared ref in interface",
			"export interface S { a: Missing, b: ( Missing2[] | null) }", []string{"Missing: type Missing referenced in interface S is not declared", "Missing2: type Missing2 referenced in interface S is not declared"}},
		{"same undeclared ref reported once per declaration",
			"export interface S { a: Missing, b: Missing }\nexport type T = Missing", []string{"Missing: type Missing referenced in interface S", "Missing: type Missing referenced in type T"}},
		{"undeclared in Record key and tuple and union",
			"type A = (Record<K1,V1> | null)\ntype B = [T1,]\ntype C = | { Kind: \"x\", Data: D1 }", []string{"K1", "V1", "T1", "D1"}},
		{"builtins are known",
			"type A = [string, number, boolean, null, undefined, unknown, any, never, void, object, Record<string, never>, Array<string>, Promise<string>, AxiosResponse<string>, File, Blob, FormData, Partial<{a: string}>, Readonly<string[]>]", nil},
		{"other globals are not known", "type A = Date\ntype B = Map<string, string>", []string{"Date: ", "Map: "}},
		{"const is not a type", "const X = { A: 0 } as const;\ntype T = X", []string{"X: type X referenced in type T is not declared"}},
		{"typeof undeclared",
			"export type X = (typeof X)[keyof typeof X];", []string{"X: typeof X in type X: X is not a declared const"}},
		{"typeof a type alias", "type A = string\ntype B = typeof A", []string{"A: typeof A in type B: A is not a declared const"}},
		{"typeof member", "const X = { A: 0 } as const;\ntype T = typeof X.A", nil},
		{"type parameters are in scope",
			"interface R<T = any> { data: T }\ntype F = <U>(x: U) => U\ntype M = { [K in \"a\"]: K }\ninterface I { m<V>(v: V): V }", nil},
		{"type parameter out of scope", "interface R<T> { data: T }\ntype X = T", []string{"T: type T referenced in type X"}},
		{"imports declare names",
			"import type { AxiosResponse, Foo as Bar } from \"axios\";\nimport Axios from \"axios\";\nimport * as NS from \"ns\";\ntype A = [Bar, NS.Thing, Axios]", nil},
		{"import alias hides original name", "import type { Foo as Bar } from \"m\";\ntype A = Foo", []string{"Foo: "}},
		{"import conflicts with declaration", "import type { A } from \"m\";\ntype A = string", []string{"A: type A conflicts with an import"}},
		{"class signatures and bodies count",
			"export abstract class C {\n constructor(protected a: P1) {}\n abstract h(e: P2): R1\n p: P3 = 1;\n async m(x: {\"k\": P4}, f: File): Promise<R2> {\n  const rep:AxiosResponse<( B1[] | null)> = await x;\n  let y: B2;\n  return rep as B3;\n }\n}",
			[]string{"P3: type P3 referenced in property C.p", "P1: type P1 referenced in method C.constructor", "P2: ", "R1: ", "P4: type P4 referenced in method C.m", "R2: ", "B1: type B1 referenced in method C.m", "B2: ", "B3: "}},
		{"class name usable as type", "class C {}\ntype T = C | null", nil},
		{"const annotation and cast are checked", "const A: Record<Nope, string> = {};\nconst B = f() as Nope2;", []string{"Nope: ", "Nope2: "}},
		{"interface extends undeclared", "interface A extends Base { a: string }", []string{"Base: "}},
	}
	for _, tc := range tests {
		_, got := envErrors(t, tc.src)
		if len(got) != len(tc.want) {
			t.Errorf("%s: got %d errors %q, want %d %q", tc.name, len(got), got, len(tc.want), tc.want)
			continue
		}
		for i := range got {
			if !strings.Contains(got[i], tc.want[i]) {
				t.Errorf("%s: error %d = %q, want it to contain %q", tc.name, i, got[i], tc.want[i])
			}
		}
	}
}

func TestDeclErrorLine(t *testing.T) {
	f := mustParse(t, "type A = string\n\ntype A = number\ninterface S {\n a: string,\n b: Missing,\n}")
	_, errs := NewEnv(f)
	if len(errs) != 2 {
		t.Fatalf("errors: %v", errs)
	}
	if l := errs[0].(*DeclError).Line; l != 3 {
		t.Errorf("duplicate reported at line %d, want 3", l)
	}
	if l := errs[1].(*DeclError).Line; l != 6 {
		t.Errorf("undeclared reported at line %d, want 6", l)
	}
}

func TestLookup(t *testing.T) {
	env, errs := envErrors(t, "export type A = ( Int[] | null)\nexport interface S { a: A }\nexport type Int = number & { __opaque__: 'Int' };\nexport const K = { X: 1 } as const;\nclass C {}")
	if len(errs) != 0 {
		t.Fatal(errs)
	}
	if ty, ok := env.Lookup("A"); !ok || ty.String() != "Int[] | null" {
		t.Errorf("Lookup(A) = %v, %v", ty, ok)
	}
	if ty, ok := env.Lookup("S"); !ok || ty.String() != "{ a: A }" {
		t.Errorf("Lookup(S) = %v, %v", ty, ok)
	}
	if _, isObj := mustLookup(t, env, "S").(*ObjectType); !isObj {
		t.Errorf("interface body is not *ObjectType")
	}
	for _, name := range []string{"K", "C", "string", "Nope"} {
		if ty, ok := env.Lookup(name); ok {
			t.Errorf("Lookup(%s) = %v, want not found", name, ty)
		}
	}
	if d, ok := env.LookupConst("K"); !ok || !d.AsConst {
		t.Errorf("LookupConst(K)")
	}
	if d, ok := env.LookupDecl("S"); !ok || d.Kind != "interface" {
		t.Errorf("LookupDecl(S)")
	}
	if got := env.TypeNames(); !reflect.DeepEqual(got, []string{"A", "Int", "S"}) {
		t.Errorf("TypeNames = %v", got)
	}
	if !IsBuiltin("Record") || IsBuiltin("Int") {
		t.Errorf("IsBuiltin")
	}
}

func mustLookup(t *testing.T, env *Env, name string) Type {
	t.Helper()
	ty, ok := env.Lookup(name)
	if !ok {
		t.Fatalf("type %s not found", name)
	}
	return ty
}

func TestReferencedTypeNames(t *testing.T) {
	f := mustParse(t, `
import type { AxiosResponse } from "axios";
export type Int = number & { __opaque__: 'Int' };
export interface S<T> { a: ( A1[] | null), t: T, m: (Record<K1,V1> | null) }
export const E = { A: 0 } as const;
export type E = (typeof E)[keyof typeof E];
export const L: Record<E, string> = {};
export abstract class C {
	constructor(protected baseUrl: string) {}
	abstract protected handleError(error: any): void
	async M1(params: {"id-1": Int, "b": boolean}, file: File) {
		const rep:AxiosResponse<( R1[] | null)> = await Axios.post(u, params);
		const other = "const fake: NotAType = 1";
		// const commented: NotAType2 = 1
		let z: L1 | undefined;
		return rep.data;
	}
	g<G>(x: G): G { return x }
}
`)
	got := f.ReferencedTypeNames()
	want := []string{"A1", "AxiosResponse", "E", "File", "Int", "K1", "L1", "R1", "Record", "V1", "any", "boolean", "null", "number", "string", "undefined", "void"}
	sort.Strings(want)
	if !reflect.DeepEqual(got, want) {
		t.Errorf("ReferencedTypeNames:\n got %v\nwant %v", got, want)
	}
}
