package tsmodel

import "strings"

type parser struct {
	src      string
	toks     []token
	i        int
	lines    *lineIndex
	tolerant bool
	edits    []edit // type stripping edits, see Strip
}

func (p *parser) peek() token { return p.toks[p.i] }

func (p *parser) at(k int) token {
	if k >= len(p.toks) {
		return p.toks[len(p.toks)-1]
	}
	return p.toks[k]
}

func (p *parser) peekAt(n int) token {
	if p.i+n >= len(p.toks) {
		return p.toks[len(p.toks)-1]
	}
	return p.toks[p.i+n]
}

func (p *parser) next() token {
	t := p.toks[p.i]
	if t.kind != tEOF {
		p.i++
	}
	return t
}

func (p *parser) prevEnd() int {
	if p.i == 0 {
		return 0
	}
	return p.toks[p.i-1].end
}

func (p *parser) line(t token) int {
	l, _ := p.lines.position(t.pos)
	return l
}

func (p *parser) fail(t token, format string, args ...any) {
	panic(p.lines.errAt(t.pos, format, args...))
}

func (p *parser) accept(punct string) bool {
	if p.peek().is(punct) {
		p.next()
		return true
	}
	return false
}

func (p *parser) expect(punct string) token {
	t := p.peek()
	if !t.is(punct) {
		p.fail(t, "expected %q, found %s", punct, t.describe())
	}
	return p.next()
}

func (p *parser) del(pos, end int) {
	if end > pos {
		p.edits = append(p.edits, edit{pos: pos, end: end})
	}
}

func (p *parser) ins(pos int, text string) {
	p.edits = append(p.edits, edit{pos: pos, end: pos, text: text})
}

// try runs fn speculatively: on a syntax error the parser state is restored
// and false is returned.
func (p *parser) try(fn func()) (ok bool) {
	i, n := p.i, len(p.edits)
	defer func() {
		if r := recover(); r != nil {
			if _, isSyntax := r.(*SyntaxError); !isSyntax {
				panic(r)
			}
			p.i, p.edits = i, p.edits[:n]
			ok = false
		}
	}()
	fn()
	return true
}

// reserved words that can never be a type reference or a declared name
var reservedWords = map[string]bool{
	"break": true, "case": true, "catch": true, "class": true, "const": true, "continue": true, "debugger": true,
	"default": true, "delete": true, "do": true, "else": true, "enum": true, "export": true, "extends": true,
	"finally": true, "for": true, "function": true, "if": true, "import": true, "in": true, "instanceof": true,
	"new": true, "return": true, "super": true, "switch": true, "throw": true, "try": true, "var": true,
	"while": true, "with": true, "yield": true, "let": true, "static": true, "implements": true, "interface": true,
	"package": true, "private": true, "protected": true, "public": true,
}

// names that TypeScript refuses as the name of a type alias or interface
var predefinedTypeNames = map[string]bool{
	"string": true, "number": true, "boolean": true, "null": true, "undefined": true, "unknown": true, "any": true,
	"never": true, "void": true, "object": true, "symbol": true, "bigint": true,
}

func (p *parser) startsType() bool {
	t := p.peek()
	switch t.kind {
	case tStr, tNum, tTmpl:
		return true
	case tIdent:
		switch t.text {
		case "null", "void", "this", "typeof", "true", "false", "new", "keyof", "readonly", "unique", "infer", "abstract":
			return true
		}
		return !reservedWords[t.text]
	case tPunct:
		switch t.text {
		case "(", "{", "[", "-", "<":
			return true
		}
	}
	return false
}

func (p *parser) parseType() Type {
	if p.startsFuncType() {
		return p.parseFuncType()
	}
	t := p.parseUnion()
	if nx := p.peek(); nx.isIdent("extends") && !nx.nl {
		p.fail(nx, "conditional types are not supported")
	}
	return t
}

func (p *parser) startsFuncType() bool {
	t := p.peek()
	switch {
	case t.is("<"):
		return true
	case t.isIdent("new"):
		return p.peekAt(1).is("(") || p.peekAt(1).is("<")
	case t.isIdent("abstract"):
		return p.peekAt(1).isIdent("new")
	case t.is("("):
		t1 := p.peekAt(1)
		if t1.is(")") || t1.is("...") {
			return true
		}
		if t1.kind == tIdent {
			t2 := p.peekAt(2)
			if t2.is(":") || t2.is(",") || t2.is("?") || t2.is("=") {
				return true
			}
			return t2.is(")") && p.peekAt(3).is("=>")
		}
		if t1.is("{") || t1.is("[") {
			if m := p.matchClose(p.i+1, len(p.toks)); m > 0 {
				after, after2 := p.toks[m+1], p.toks[min(m+2, len(p.toks)-1)]
				return after.is(":") || after.is(",") || after.is("=") || after.is(")") && after2.is("=>")
			}
		}
	}
	return false
}

// matchClose returns the index of the token closing the bracket at index open,
// or -1 if it is not closed before limit.
func (p *parser) matchClose(open, limit int) int {
	var stack []byte
	for k := open; k < limit && k < len(p.toks); k++ {
		t := p.toks[k]
		if t.kind != tPunct || len(t.text) != 1 {
			continue
		}
		switch c := t.text[0]; c {
		case '(', '[', '{':
			stack = append(stack, c)
		case ')', ']', '}':
			if len(stack) == 0 || stack[len(stack)-1] != map[byte]byte{')': '(', ']': '[', '}': '{'}[c] {
				return -1
			}
			stack = stack[:len(stack)-1]
			if len(stack) == 0 {
				return k
			}
		}
	}
	return -1
}

func (p *parser) parseFuncType() Type {
	ft := &FuncType{}
	if p.peek().isIdent("abstract") {
		p.next()
	}
	if p.peek().isIdent("new") {
		p.next()
		ft.New = true
	}
	if p.peek().is("<") {
		ft.TypeParams = p.parseTypeParams()
	}
	ft.Params = p.parseParams()
	p.expect("=>")
	ft.Return = p.parseReturnType()
	return ft
}

// parseReturnType parses a type or a type predicate (`x is T`, `asserts x`).
func (p *parser) parseReturnType() Type {
	t, t1 := p.peek(), p.peekAt(1)
	if t.isIdent("asserts") && t1.kind == tIdent && !t1.nl {
		p.next()
		p.next()
		if p.peek().isIdent("is") && !p.peek().nl {
			p.next()
			p.parseType()
		}
		return &Ref{Name: "void"}
	}
	if t.kind == tIdent && t1.isIdent("is") && !t1.nl {
		p.next()
		p.next()
		p.parseType()
		return &Ref{Name: "boolean"}
	}
	return p.parseType()
}

func (p *parser) parseUnion() Type {
	var alts []Type
	if p.peek().is("|") {
		p.next()
		if !p.startsType() {
			p.fail(p.peek(), "empty union alternative: expected a type after '|', found %s", p.peek().describe())
		}
	}
	alts = append(alts, p.parseIntersection())
	for p.peek().is("|") {
		p.next()
		if !p.startsType() {
			p.fail(p.peek(), "empty union alternative: expected a type after '|', found %s", p.peek().describe())
		}
		alts = append(alts, p.parseIntersection())
	}
	if len(alts) == 1 {
		return alts[0]
	}
	return &Union{Alts: alts}
}

func (p *parser) parseIntersection() Type {
	var parts []Type
	if p.peek().is("&") {
		p.next()
	}
	if !p.startsType() {
		p.fail(p.peek(), "expected a type, found %s", p.peek().describe())
	}
	parts = append(parts, p.parseOperator())
	for p.peek().is("&") {
		p.next()
		if !p.startsType() {
			p.fail(p.peek(), "empty intersection member: expected a type after '&', found %s", p.peek().describe())
		}
		parts = append(parts, p.parseOperator())
	}
	if len(parts) == 1 {
		return parts[0]
	}
	return &Intersection{Parts: parts}
}

func (p *parser) parseOperator() Type {
	t := p.peek()
	if t.kind == tIdent {
		switch t.text {
		case "keyof":
			p.next()
			return &KeyOf{T: p.parseOperator()}
		case "readonly":
			p.next()
			return p.parseOperator()
		case "unique":
			if p.peekAt(1).isIdent("symbol") {
				p.next()
				p.next()
				return &Ref{Name: "symbol"}
			}
		case "infer":
			p.fail(t, "infer types are not supported")
		}
	}
	return p.parsePostfix()
}

func (p *parser) parsePostfix() Type {
	t := p.parsePrimary()
	for {
		nx := p.peek()
		if !nx.is("[") || nx.nl {
			return t
		}
		p.next()
		if p.accept("]") {
			t = &ArrayOf{Elem: t}
			continue
		}
		idx := p.parseType()
		p.expect("]")
		t = &Indexed{Obj: t, Index: idx}
	}
}

func (p *parser) parsePrimary() Type {
	t := p.peek()
	switch t.kind {
	case tStr:
		p.next()
		return &Literal{Kind: "string", Str: t.val}
	case tNum:
		p.next()
		if t.bigint {
			p.fail(t, "bigint literal types are not supported")
		}
		return &Literal{Kind: "number", Num: t.text}
	case tTmpl:
		p.fail(t, "template literal types are not supported")
	case tPunct:
		switch t.text {
		case "(":
			p.next()
			inner := p.parseType()
			p.expect(")")
			return inner
		case "{":
			return p.parseObjectType()
		case "[":
			return p.parseTuple()
		case "-":
			n := p.peekAt(1)
			if n.kind == tNum && !n.bigint {
				p.next()
				p.next()
				return &Literal{Kind: "number", Num: "-" + n.text}
			}
		}
	case tIdent:
		switch t.text {
		case "true", "false":
			p.next()
			return &Literal{Kind: "boolean", Bool: t.text == "true"}
		case "typeof":
			p.next()
			n := p.peek()
			if n.kind != tIdent || reservedWords[n.text] {
				p.fail(n, "expected an identifier after typeof, found %s", n.describe())
			}
			return &TypeOf{Name: p.parseQualifiedName()}
		}
		if reservedWords[t.text] {
			p.fail(t, "expected a type, found reserved word %s", t.describe())
		}
		ref := &Ref{Name: p.parseQualifiedName()}
		if p.peek().is("<") {
			ref.Args = p.parseTypeArgs()
		}
		return ref
	}
	p.fail(t, "expected a type, found %s", t.describe())
	return nil
}

func (p *parser) parseQualifiedName() string {
	name := p.next().text
	for p.peek().is(".") && p.peekAt(1).kind == tIdent {
		p.next()
		name += "." + p.next().text
	}
	return name
}

func (p *parser) parseTypeArgs() []Type {
	open := p.expect("<")
	var args []Type
	for !p.peek().is(">") {
		args = append(args, p.parseType())
		if !p.accept(",") {
			break
		}
	}
	p.expect(">")
	if len(args) == 0 {
		p.fail(open, "type argument list cannot be empty")
	}
	return args
}

func (p *parser) parseTypeParams() []*TypeParam {
	open := p.expect("<")
	var out []*TypeParam
	for !p.peek().is(">") {
		for (p.peek().isIdent("const") || p.peek().isIdent("in") || p.peek().isIdent("out")) && p.peekAt(1).kind == tIdent {
			p.next()
		}
		n := p.peek()
		if n.kind != tIdent || reservedWords[n.text] {
			p.fail(n, "expected a type parameter name, found %s", n.describe())
		}
		p.next()
		tp := &TypeParam{Name: n.text}
		if p.peek().isIdent("extends") {
			p.next()
			tp.Constraint = p.parseUnionOrFunc()
		}
		if p.accept("=") {
			tp.Default = p.parseType()
		}
		out = append(out, tp)
		if !p.accept(",") {
			break
		}
	}
	p.expect(">")
	if len(out) == 0 {
		p.fail(open, "type parameter list cannot be empty")
	}
	return out
}

// parseUnionOrFunc parses a type without treating a following `extends` as a
// conditional type.
func (p *parser) parseUnionOrFunc() Type {
	if p.startsFuncType() {
		return p.parseFuncType()
	}
	return p.parseUnion()
}

func (p *parser) parseTuple() Type {
	p.expect("[")
	tu := &Tuple{Elems: []Type{}}
	for !p.peek().is("]") {
		if p.peek().is(",") {
			p.fail(p.peek(), "empty tuple element")
		}
		rest := p.accept("...")
		// named element `name: T` / `name?: T`
		optional := false
		if t := p.peek(); t.kind == tIdent {
			if p.peekAt(1).is(":") {
				p.next()
				p.next()
			} else if p.peekAt(1).is("?") && p.peekAt(2).is(":") {
				p.next()
				p.next()
				p.next()
				optional = true
			}
		}
		el := p.parseType()
		if p.accept("?") {
			optional = true
		}
		if rest {
			el = &RestElem{Elem: el}
		} else if optional {
			el = &OptionalElem{Elem: el}
		}
		tu.Elems = append(tu.Elems, el)
		if !p.accept(",") {
			break
		}
	}
	p.expect("]")
	return tu
}

func isKeyToken(t token) bool {
	return t.kind == tIdent || t.kind == tStr || t.kind == tNum
}

func (p *parser) parseObjectType() Type {
	open := p.expect("{")
	// mapped type?
	{
		k := 0
		if p.peekAt(k).is("+") || p.peekAt(k).is("-") {
			k++
		}
		if p.peekAt(k).isIdent("readonly") && p.peekAt(k+1).is("[") {
			k++
		}
		if p.peekAt(k).is("[") && p.peekAt(k+1).kind == tIdent && p.peekAt(k+2).isIdent("in") {
			return p.parseMapped(k > 0)
		}
	}
	obj := &ObjectType{}
	for !p.peek().is("}") {
		t := p.peek()
		if t.kind == tEOF {
			p.fail(open, "unbalanced '{': object type is not closed")
		}
		if t.is(",") || t.is(";") {
			p.fail(t, "empty member in object type: unexpected %s", t.describe())
		}
		p.parseTypeMember(obj)
		nx := p.peek()
		switch {
		case nx.is(",") || nx.is(";"):
			p.next()
		case nx.kind == tEOF:
			p.fail(open, "unbalanced '{': object type is not closed")
		case nx.is("}") || nx.nl:
		default:
			p.fail(nx, "expected ',', ';' or a newline between object type members, found %s", nx.describe())
		}
	}
	p.expect("}")
	return obj
}

func (p *parser) parseMapped(readonly bool) Type {
	for !p.peek().is("[") {
		p.next()
	}
	p.next()
	m := &Mapped{Readonly: readonly, Param: p.next().text}
	p.next() // in
	m.Constraint = p.parseType()
	if p.peek().isIdent("as") {
		p.fail(p.peek(), "key remapping in mapped types is not supported")
	}
	p.expect("]")
	if p.peek().is("+") || p.peek().is("-") {
		minus := p.next().is("-")
		p.expect("?")
		m.Optional = !minus
	} else if p.accept("?") {
		m.Optional = true
	}
	p.expect(":")
	m.Value = p.parseType()
	if !p.accept(";") {
		p.accept(",")
	}
	p.expect("}")
	return m
}

func (p *parser) parseTypeMember(obj *ObjectType) {
	t := p.peek()
	line := p.line(t)
	readonly := false
	if t.isIdent("readonly") && (isKeyToken(p.peekAt(1)) || p.peekAt(1).is("[")) && !p.peekAt(1).nl {
		p.next()
		readonly = true
		t = p.peek()
	}
	switch {
	case t.is("["):
		if p.peekAt(1).kind == tIdent && p.peekAt(2).is(":") {
			p.next()
			ix := &IndexSig{Name: p.next().text, Readonly: readonly}
			p.next()
			ix.Key = p.parseType()
			p.expect("]")
			p.expect(":")
			ix.Value = p.parseType()
			if obj.Index != nil {
				p.fail(t, "duplicate index signature")
			}
			obj.Index = ix
			return
		}
		p.fail(t, "computed property names are not supported in object types")
	case t.is("(") || t.is("<"):
		obj.Members = append(obj.Members, &Member{Kind: "call", Type: p.parseSignature(), Line: line})
		return
	case t.isIdent("new") && (p.peekAt(1).is("(") || p.peekAt(1).is("<")):
		p.next()
		ft := p.parseSignature()
		ft.New = true
		obj.Members = append(obj.Members, &Member{Kind: "construct", Type: ft, Line: line})
		return
	}
	if !isKeyToken(t) {
		p.fail(t, "expected a property name, found %s", t.describe())
	}
	p.next()
	m := &Member{Kind: "property", Readonly: readonly, Line: line}
	switch t.kind {
	case tIdent:
		m.Key = t.text
		if strings.HasPrefix(t.text, "#") {
			p.fail(t, "private names are not allowed in object types")
		}
	case tStr:
		m.Key, m.Quoted = t.val, true
	case tNum:
		m.Key = canonicalNumberKey(t.val)
	}
	if p.accept("?") {
		m.Optional = true
	}
	nx := p.peek()
	switch {
	case nx.is(":"):
		p.next()
		m.Type = p.parseType()
	case nx.is("(") || nx.is("<"):
		m.Kind = "method"
		m.Type = p.parseSignature()
	default:
		p.fail(nx, "property %s has no type annotation: expected ':', found %s", jsQuote(m.Key), nx.describe())
	}
	obj.Members = append(obj.Members, m)
}

// parseSignature parses `<T>(params): R`.
func (p *parser) parseSignature() *FuncType {
	ft := &FuncType{}
	if p.peek().is("<") {
		ft.TypeParams = p.parseTypeParams()
	}
	ft.Params = p.parseParams()
	if p.accept(":") {
		ft.Return = p.parseReturnType()
	}
	return ft
}

var paramModifiers = map[string]bool{"public": true, "private": true, "protected": true, "readonly": true, "override": true}

// parseParams parses `( ... )`. It records the edits that turn the list into
// plain JavaScript parameters.
func (p *parser) parseParams() []*Param {
	open := p.expect("(")
	params := []*Param{}
	for !p.peek().is(")") {
		if p.peek().kind == tEOF {
			p.fail(open, "unbalanced '(': parameter list is not closed")
		}
		start := p.peek().pos
		pa := &Param{}
		for {
			t, n := p.peek(), p.peekAt(1)
			if t.kind == tIdent && paramModifiers[t.text] && !n.nl && (n.kind == tIdent || n.is("{") || n.is("[") || n.is("...")) {
				p.next()
				pa.Modifiers = append(pa.Modifiers, t.text)
				p.del(t.pos, n.pos)
				continue
			}
			break
		}
		if p.accept("...") {
			pa.Rest = true
		}
		t := p.peek()
		switch {
		case t.kind == tIdent && (!reservedWords[t.text] || t.text == "this"):
			p.next()
			pa.Name = t.text
		case t.is("{") || t.is("["):
			m := p.matchClose(p.i, len(p.toks))
			if m < 0 {
				p.fail(t, "unbalanced %s in parameter pattern", t.describe())
			}
			pa.Name = p.src[t.pos:p.toks[m].end]
			p.i = m + 1
		default:
			p.fail(t, "expected a parameter name, found %s", t.describe())
		}
		nameEnd := p.prevEnd()
		if p.accept("?") {
			pa.Optional = true
		}
		if p.accept(":") {
			pa.Type = p.parseType()
		}
		p.del(nameEnd, p.prevEnd())
		if p.accept("=") {
			from := p.i
			p.skipExpr(true, false)
			if p.i == from {
				p.fail(p.peek(), "expected a default value, found %s", p.peek().describe())
			}
			pa.Default = p.src[p.toks[from].pos:p.prevEnd()]
		}
		params = append(params, pa)
		hasComma := p.accept(",")
		if pa.Name == "this" {
			// `this` pseudo parameter: remove it completely
			p.del(start, p.peek().pos)
		}
		if !hasComma {
			break
		}
	}
	p.expect(")")
	return params
}

func isExprEnd(t token) bool {
	switch t.kind {
	case tNum, tStr, tTmpl, tRegex:
		return true
	case tPunct:
		return t.text == ")" || t.text == "]" || t.text == "}"
	case tIdent:
		if regexAfterKeyword[t.text] {
			return false
		}
		switch t.text {
		case "if", "for", "while", "switch", "with", "catch", "const", "let", "var", "function", "class", "extends", "import", "export", "default", "async":
			return false
		}
		return true
	}
	return false
}

// skipExpr consumes the tokens of one expression, keeping brackets balanced.
// It stops (without consuming) at `;`, at a closing bracket that does not
// belong to the expression, at `,` (if stopComma), at the end of file and, if
// stopNL, where automatic semicolon insertion would end the expression.
func (p *parser) skipExpr(stopComma, stopNL bool) {
	depth := 0
	start := p.i
	for {
		t := p.peek()
		if t.kind == tEOF {
			if depth > 0 {
				p.fail(p.toks[start], "unbalanced brackets in expression")
			}
			return
		}
		if depth == 0 {
			if t.is(";") || stopComma && t.is(",") {
				return
			}
			if stopNL && t.nl && p.i > start && isExprEnd(p.toks[p.i-1]) && (t.kind == tIdent || t.kind == tStr || t.kind == tNum || t.is("}") || t.is("@")) &&
				!(t.isIdent("as") || t.isIdent("satisfies") || t.isIdent("in") || t.isIdent("instanceof")) {
				return
			}
		}
		if !stopNL && depth == 0 && p.i > start && isExprEnd(p.toks[p.i-1]) &&
			(t.kind == tNum || t.kind == tStr || t.kind == tIdent && !binaryKeywords[t.text]) {
			p.fail(t, "unexpected %s after an expression: missing ',' or operator", t.describe())
		}
		if t.kind == tPunct {
			switch t.text {
			case "(", "[", "{":
				depth++
			case ")", "]", "}":
				if depth == 0 {
					return
				}
				depth--
			}
		}
		p.next()
	}
}

var binaryKeywords = map[string]bool{"in": true, "instanceof": true, "as": true, "satisfies": true, "of": true}
