package tsmodel

import (
	"encoding/json"
	"os"
	"strings"
	"testing"
)

func decode(t *testing.T, text string) any {
	t.Helper()
	dec := json.NewDecoder(strings.NewReader(text))
	dec.UseNumber()
	var doc any
	if err := dec.Decode(&doc); err != nil {
		t.Fatalf("bad JSON %q: %v", text, err)
	}
	return doc
}

func mustEnv(t *testing.T, src string) *Env {
	t.Helper()
	f := mustParse(t, src)
	env, errs := NewEnv(f)
	if len(errs) != 0 {
		t.Fatalf("NewEnv: %v", errs)
	}
	return env
}

type inhabitCase struct {
	typ    string // type expression
	doc    string // JSON
	path   string // "" if the document inhabits the type, else the expected Mismatch.Path
	reason string // substring of Mismatch.Reason
}

func runInhabitCases(t *testing.T, env *Env, cases []inhabitCase) {
	t.Helper()
	for _, tc := range cases {
		ty, err := ParseType(tc.typ)
		if err != nil {
			t.Errorf("ParseType(%q): %v", tc.typ, err)
			continue
		}
		m := env.InhabitsType(decode(t, tc.doc), ty)
		switch {
		case tc.path == "" && m != nil:
			t.Errorf("%s <- %s: unexpected mismatch %v", tc.typ, tc.doc, m)
		case tc.path != "" && m == nil:
			t.Errorf("%s <- %s: inhabits, want mismatch at %s (%s)", tc.typ, tc.doc, tc.path, tc.reason)
		case tc.path != "":
			if m.Path != tc.path || !strings.Contains(m.Reason, tc.reason) {
				t.Errorf("%s <- %s: mismatch %v\n\twant path %s and reason containing %q", tc.typ, tc.doc, m, tc.path, tc.reason)
			}
			if m.Expected == "" || m.Got == "" || m.Reason == "" || m.String() == "" {
				t.Errorf("%s <- %s: incomplete mismatch %+v", tc.typ, tc.doc, m)
			}
		}
	}
}

func TestInhabitsPrimitives(t *testing.T) {
	env := mustEnv(t, "")
	runInhabitCases(t, env, []inhabitCase{
		{"string", `"a"`, "", ""}, {"string", `""`, "", ""}, {"string", `1`, "$", "expected a string, got number"}, {"string", `null`, "$", "got null"},
		{"number", `1`, "", ""}, {"number", `-1.5e10`, "", ""}, {"number", `"1"`, "$", "expected a number, got string"}, {"number", `true`, "$", "got boolean"},
		{"boolean", `true`, "", ""}, {"boolean", `false`, "", ""}, {"boolean", `0`, "$", "expected a boolean"}, {"boolean", `"true"`, "$", "expected a boolean"},
		{"null", `null`, "", ""}, {"null", `0`, "$", "expected null"}, {"null", `{}`, "$", "got object"}, {"null", `[]`, "$", "got array"},
		{"unknown", `null`, "", ""}, {"unknown", `{"a":[1]}`, "", ""}, {"any", `[1,"a"]`, "", ""},
		{"never", `null`, "$", "never"}, {"never", `1`, "$", "never"},
		{"undefined", `null`, "$", "JSON has no value for undefined"}, {"void", `null`, "$", "JSON has no value for void"},
		{"object", `{}`, "", ""}, {"object", `[]`, "", ""}, {"object", `1`, "$", "non-primitive"}, {"object", `null`, "$", "non-primitive"},
		{"File", `{}`, "$", "host type File"}, {"Blob", `""`, "$", "host type Blob"}, {"Promise<string>", `""`, "$", "host type"},
		{"Missing", `1`, "$", "not declared"},
		{"(a: string) => void", `{}`, "$", "function types"},
		// parenthesised types are transparent
		{"(((string)))", `"a"`, "", ""},
	})
}

func TestInhabitsLiterals(t *testing.T) {
	env := mustEnv(t, "")
	runInhabitCases(t, env, []inhabitCase{
		{`"a"`, `"a"`, "", ""}, {`'a'`, `"a"`, "", ""}, {`"a"`, `"b"`, "$", `not the literal "a"`}, {`"a"`, `"A"`, "$", "literal"}, {`"1"`, `1`, "$", "literal"},
		{`"é\n"`, `"é\n"`, "", ""}, {`""`, `""`, "", ""}, {`""`, `null`, "$", "literal"},
		{`1`, `1`, "", ""}, {`1`, `1.0`, "", ""}, {`1`, `1e0`, "", ""}, {`1`, `10E-1`, "", ""}, {`1.0`, `1`, "", ""}, {`1`, `2`, "$", "not the literal 1"}, {`1`, `"1"`, "$", "literal"},
		{`-1`, `-1`, "", ""}, {`-1`, `1`, "$", "literal"}, {`0`, `-0`, "", ""}, {`0`, `0.0`, "", ""},
		{`1e+06`, `1000000`, "", ""}, {`1.5e-07`, `0.00000015`, "", ""}, {`1.5e-07`, `1.5e-7`, "", ""}, {`1.5`, `1.50`, "", ""}, {`1.5`, `1.51`, "$", "literal"},
		{`0.1`, `0.1000000000000000055511151231257827`, "$", "literal"}, // exact decimal comparison, not float64
		{`12345678901234567890`, `12345678901234567890`, "", ""}, {`12345678901234567890`, `12345678901234567891`, "$", "literal"},
		{`true`, `true`, "", ""}, {`true`, `false`, "$", "literal true"}, {`false`, `false`, "", ""}, {`false`, `0`, "$", "literal"}, {`true`, `"true"`, "$", "literal"},
	})
}

func TestInhabitsArraysTuplesUnions(t *testing.T) {
	env := mustEnv(t, "export type Int = number & { __opaque__: 'Int' };")
	runInhabitCases(t, env, []inhabitCase{
		{"string[]", `[]`, "", ""}, {"string[]", `["a","b"]`, "", ""}, {"string[]", `["a",1]`, "$[1]", "expected a string"}, {"string[]", `null`, "$", "expected an array, got null"},
		{"string[]", `{}`, "$", "expected an array, got object"}, {"string[]", `"a"`, "$", "expected an array"},
		{"Array<Int>", `[1,2]`, "", ""}, {"Array<Int>", `[1,"2"]`, "$[1]", "expected a number"},
		{"Int[][]", `[[1],[2,3],[]]`, "", ""}, {"Int[][]", `[[1],[2,null]]`, "$[1][1]", "expected a number"}, {"Int[][]", `[1]`, "$[0]", "expected an array"},
		{"( Int[] | null)", `null`, "", ""}, {"( Int[] | null)", `[1]`, "", ""}, {"( Int[] | null)", `["a"]`, "$[0]", "expected a number"}, {"( Int[] | null)", `1`, "$", "matches no alternative"},
		{"(Int | null)[]", `[1,null,2]`, "", ""}, {"(Int | null)[]", `null`, "$", "expected an array"},
		{"[Int,Int,]", `[1,2]`, "", ""}, {"[Int,Int,]", `[1]`, "$", "tuple of length 2 expected, got an array of length 1"}, {"[Int,Int,]", `[1,2,3]`, "$", "length 3"},
		{"[Int,Int,]", `[1,"2"]`, "$[1]", "expected a number"}, {"[Int,Int,]", `null`, "$", "expected an array (tuple)"}, {"[Int,Int,]", `{"0":1,"1":2}`, "$", "tuple"},
		{"[]", `[]`, "", ""}, {"[]", `[1]`, "$", "length"},
		{"[string, boolean]", `["a",true]`, "", ""}, {"[string, boolean]", `[true,"a"]`, "$[0]", "expected a string"},
		{"[string, number?]", `["a"]`, "", ""}, {"[string, number?]", `["a",1]`, "", ""}, {"[string, number?]", `["a",1,2]`, "$", "length"}, {"[string, number?]", `[]`, "$", "length"},
		{"[string, ...number[]]", `["a"]`, "", ""}, {"[string, ...number[]]", `["a",1,2,3]`, "", ""}, {"[string, ...number[]]", `["a",1,"b"]`, "$[2]", "expected a number"},
		{"string | number", `"a"`, "", ""}, {"string | number", `1`, "", ""}, {"string | number", `true`, "$", "boolean value matches no alternative"},
		{`"a" | "b" | 1`, `"b"`, "", ""}, {`"a" | "b" | 1`, `1.0`, "", ""}, {`"a" | "b" | 1`, `"c"`, "$", "no alternative"},
		// the reported mismatch is the one of the closest alternative
		{`| { Kind : "A", Data: string} | { Kind : "B", Data: Int[]}`, `{"Kind":"B","Data":[1,"x"]}`, "$.Data[1]", "closest: expected a number"},
		{`| { Kind : "A", Data: string} | { Kind : "B", Data: Int[]}`, `{"Kind":"C","Data":1}`, "$.Kind", "no alternative of the union"},
		{`| { Kind : "A", Data: string} | { Kind : "B", Data: Int[]}`, `{"Kind":"A","Data":"x"}`, "", ""},
		{`| { Kind : "A", Data: string} | { Kind : "B", Data: Int[]}`, `"A"`, "$", "no alternative"},
	})
}

func TestInhabitsObjects(t *testing.T) {
	env := mustEnv(t, `
export type Int = number & { __opaque__: 'Int' };
export interface S {
	a: Int,
	"b-c": string,
	opt?: boolean,
}
interface Base { id: Int }
interface Derived extends Base { name: string }
interface Idx { fixed: string; [k: string]: string | number }
interface NumIdx { [k: number]: boolean }
interface WithMethod { a: string; m(): void }
interface Callable { (x: number): string }
export interface Node { Children: ( Node[] | null) }
`)
	runInhabitCases(t, env, []inhabitCase{
		{"S", `{"a":1,"b-c":"x"}`, "", ""},
		{"S", `{"a":1,"b-c":"x","opt":true}`, "", ""},
		{"S", `{"b-c":"x","a":1}`, "", ""},
		{"S", `{"a":1}`, "$", `missing property "b-c"`},
		{"S", `{}`, "$", `missing property "a"`},
		{"S", `{"a":1,"b-c":"x","zzz":1}`, "$.zzz", `extra property "zzz"`},
		{"S", `{"a":1,"b-c":"x","A":1}`, "$.A", "extra property"}, // keys are case sensitive
		{"S", `{"a":"1","b-c":"x"}`, "$.a", "expected a number"},
		{"S", `{"a":1,"b-c":2}`, `$["b-c"]`, "expected a string"},
		{"S", `{"a":1,"b-c":"x","opt":null}`, "$.opt", "expected a boolean, got null"}, // optional is not nullable
		{"S", `{"a":null,"b-c":"x"}`, "$.a", "expected a number, got null"},
		{"S", `null`, "$", "expected an object, got null"},
		{"S", `[]`, "$", "expected an object, got array"},
		{"S", `"{}"`, "$", "expected an object"},
		{"S[]", `[{"a":1,"b-c":"x"},{"a":1}]`, "$[1]", "missing property"},
		{"{}", `{}`, "", ""}, {"{}", `{"a":1}`, "$.a", "extra property"}, {"{}", `1`, "$", "expected an object"},
		{"{ a: { b: { c: Int[] } } }", `{"a":{"b":{"c":[1,true]}}}`, "$.a.b.c[1]", "expected a number"},
		{"{ a: string, a: number }", `{"a":1}`, "$", "declared twice"},
		{"Derived", `{"id":1,"name":"n"}`, "", ""}, {"Derived", `{"name":"n"}`, "$", `missing property "id"`}, {"Derived", `{"id":1,"name":"n","x":1}`, "$.x", "extra"},
		{"Idx", `{"fixed":"a"}`, "", ""}, {"Idx", `{"fixed":"a","x":1,"y":"s"}`, "", ""}, {"Idx", `{"fixed":"a","x":true}`, "$.x", "no alternative"}, {"Idx", `{"x":1}`, "$", "missing property"},
		{"NumIdx", `{"1":true,"2.5":false}`, "", ""}, {"NumIdx", `{"a":true}`, "$.a", "not admissible for the index signature"},
		{"WithMethod", `{"a":"x"}`, "$", `missing property "m"`}, {"WithMethod", `{"a":"x","m":null}`, "$.m", "function types"},
		{"Callable", `{}`, "$", "call signature"},
		{"Partial<S>", `{}`, "", ""}, {"Partial<S>", `{"a":1}`, "", ""}, {"Partial<S>", `{"a":"1"}`, "$.a", "expected a number"}, {"Partial<S>", `{"q":1}`, "$.q", "extra"},
		{"Readonly<S>", `{"a":1,"b-c":"x"}`, "", ""},
		// recursive types
		{"Node", `{"Children":null}`, "", ""},
		{"Node", `{"Children":[{"Children":[]},{"Children":[{"Children":null}]}]}`, "", ""},
		{"Node", `{"Children":[{"Children":[{"children":null}]}]}`, "$.Children[0].Children[0]", `missing property "Children"`},
		{"Node", `{"Children":[{"Children":[{"Children":null,"x":1}]}]}`, "$.Children[0].Children[0].x", "extra property"},
	})
}

func TestInhabitsIntersections(t *testing.T) {
	env := mustEnv(t, `
export type Int = number & { __opaque__: 'Int' };
export type Time = string & { __opaque__: 'Time' }
export type Id = number & { __opaque__: 'Id' } & { __other__: true };
type Lit = ("a" | "b") & { __brand: 1 };
type Nested = Int & { __more__: 1 };
interface A { a: string }
interface B { b: number }
type AB = A & B;
type ABopt = A & { a: "x", c?: boolean };
type NotBrand = number & { opaque: 'x' };
`)
	runInhabitCases(t, env, []inhabitCase{
		{"Int", `1`, "", ""}, {"Int", `1.5`, "", ""}, {"Int", `"1"`, "$", "expected a number"}, {"Int", `{"__opaque__":"Int"}`, "$", "expected a number"}, {"Int", `null`, "$", "expected a number"},
		{"Time", `"2020-01-01T00:00:00Z"`, "", ""}, {"Time", `1`, "$", "expected a string"},
		{"Id", `1`, "", ""}, {"Nested", `1`, "", ""}, {"Nested", `"a"`, "$", "expected a number"},
		{"Lit", `"a"`, "", ""}, {"Lit", `"c"`, "$", "no alternative"},
		{"AB", `{"a":"x","b":1}`, "", ""}, {"AB", `{"a":"x"}`, "$", `missing property "b"`}, {"AB", `{"a":"x","b":1,"c":2}`, "$.c", "extra"}, {"AB", `{"a":1,"b":1}`, "$.a", "expected a string"},
		{"ABopt", `{"a":"x"}`, "", ""}, {"ABopt", `{"a":"y"}`, "$.a", "literal"}, {"ABopt", `{"a":"x","c":true}`, "", ""},
		{"NotBrand", `1`, "$", "expected an object"}, // no value is both a number and an object
		{"string & number", `"a"`, "$", "expected a number"},
		{"(string | number) & string", `"a"`, "", ""},
	})
}

func TestInhabitsRecords(t *testing.T) {
	env := mustEnv(t, `
export type Int = number & { __opaque__: 'Int' };
export type IdCamp = number & { __opaque__: 'IdCamp' };
export const EnumInt = {
	Ai : 0,
Bi : 1,
Ci : 2,
Di : 4,
} as const;
export type EnumInt = (typeof EnumInt)[keyof typeof EnumInt];
export const EnumStr = {
	A : "va",
B : "v-b",
} as const;
export type EnumStr = (typeof EnumStr)[keyof typeof EnumStr];
export const Mixed = { N : -1, F : 1.5, S: "s", } as const;
export type Mixed = (typeof Mixed)[keyof typeof Mixed];
type Name = string
`)
	cases := []inhabitCase{
		{"(Record<string,Int> | null)", `null`, "", ""}, {"(Record<string,Int> | null)", `{}`, "", ""}, {"(Record<string,Int> | null)", `{"a":1,"":2}`, "", ""},
		{"(Record<string,Int> | null)", `{"a":"1"}`, "$.a", "expected a number"}, {"(Record<string,Int> | null)", `[]`, "$", "no alternative"},
		{"Record<string,Int>", `[]`, "$", "expected an object, got array"}, {"Record<string,Int>", `null`, "$", "expected an object"},
		{"Record<Name,Int>", `{"x":1}`, "", ""},
		{"Record<string, never>", `{}`, "", ""}, {"Record<string, never>", `{"a":null}`, "$.a", "never"}, {"Record<string, never>", `null`, "$", "expected an object"},
		{"Record<string, unknown>", `{"a":null,"b":[1]}`, "", ""},
		{"Record<Int,string>", `{"1":"a","-2":"b","1.5":"c","1e3":"d"}`, "", ""},
		{"Record<Int,string>", `{"a":"a"}`, "$.a", `key "a" is not admissible for the key type Int`},
		{"Record<Int,string>", `{"":"a"}`, `$[""]`, "not admissible"},
		{"Record<Int,string>", `{"01":"a"}`, `$["01"]`, "not admissible"},
		{"Record<Int,string>", `{" 1":"a"}`, `$[" 1"]`, "not admissible"},
		{"Record<Int,string>", `{"0x10":"a"}`, `$["0x10"]`, "not admissible"},
		{"Record<number,string>", `{"1":"a"}`, "", ""}, {"Record<number,string>", `{"NaN":"a"}`, "$.NaN", "not admissible"},
		{"Record<IdCamp,Record<Int,boolean>>", `{"1":{"2":true}}`, "", ""}, {"Record<IdCamp,Record<Int,boolean>>", `{"1":{"x":true}}`, `$["1"].x`, "not admissible"},
		{"Record<EnumInt,boolean>", `{}`, "", ""}, {"Record<EnumInt,boolean>", `{"0":true,"4":false}`, "", ""}, {"Record<EnumInt,boolean>", `{"1.0":true,"2e0":false}`, "", ""},
		{"Record<EnumInt,boolean>", `{"3":true}`, `$["3"]`, `key "3" is not admissible for the key type EnumInt`},
		{"Record<EnumInt,boolean>", `{"Ai":true}`, "$.Ai", "not admissible"},
		{"Record<EnumInt,boolean>", `{"0":1}`, `$["0"]`, "expected a boolean"},
		{"Record<EnumStr,Int>", `{"va":1,"v-b":2}`, "", ""}, {"Record<EnumStr,Int>", `{"A":1}`, "$.A", "not admissible"}, {"Record<EnumStr,Int>", `{"VA":1}`, "$.VA", "not admissible"},
		{"Record<Mixed,Int>", `{"-1":1,"1.5":2,"s":3,"-1.0":4}`, "", ""}, {"Record<Mixed,Int>", `{"1":1}`, `$["1"]`, "not admissible"},
		{`Record<"a" | "b", Int>`, `{"a":1}`, "", ""}, {`Record<"a" | "b", Int>`, `{"c":1}`, "$.c", "not admissible"},
		{"Record<never, Int>", `{}`, "", ""}, {"Record<never, Int>", `{"a":1}`, "$.a", "not admissible"},
		{"Record<string>", `{}`, "$", "requires 2 type arguments"},
		{"{ [K in EnumStr]?: Int }", `{"va":1}`, "", ""}, {"{ [K in EnumStr]?: Int }", `{"x":1}`, "$.x", "not admissible"},
		{"{ [K in EnumStr]: Int }", `{"va":1}`, "$", `missing key "v-b"`}, {"{ [K in EnumStr]: Int }", `{"va":1,"v-b":2}`, "", ""},
		// enum aliases
		{"EnumInt", `0`, "", ""}, {"EnumInt", `4`, "", ""}, {"EnumInt", `4.0`, "", ""}, {"EnumInt", `3`, "$", "no alternative"}, {"EnumInt", `"0"`, "$", "no alternative"}, {"EnumInt", `"Ai"`, "$", "no alternative"}, {"EnumInt", `null`, "$", "no alternative"},
		{"EnumStr", `"va"`, "", ""}, {"EnumStr", `"v-b"`, "", ""}, {"EnumStr", `"A"`, "$", "no alternative"}, {"EnumStr", `0`, "$", "no alternative"},
		{"Mixed", `-1`, "", ""}, {"Mixed", `1.5`, "", ""}, {"Mixed", `15e-1`, "", ""}, {"Mixed", `"s"`, "", ""}, {"Mixed", `1`, "$", "no alternative"},
		{"typeof EnumInt", `{"Ai":0,"Bi":1,"Ci":2,"Di":4}`, "", ""}, {"typeof EnumInt", `{"Ai":0,"Bi":1,"Ci":2,"Di":3}`, "$.Di", "literal 4"}, {"typeof EnumInt", `{"Ai":0}`, "$", "missing property"},
		{"keyof typeof EnumInt", `"Ai"`, "", ""}, {"keyof typeof EnumInt", `"ai"`, "$", "no alternative"}, {"keyof typeof EnumInt", `0`, "$", "no alternative"},
		{"typeof EnumInt.Bi", `1`, "", ""}, {"typeof EnumInt.Bi", `0`, "$", "literal 1"},
		{`(typeof EnumInt)["Ai" | "Di"]`, `4`, "", ""}, {`(typeof EnumInt)["Ai" | "Di"]`, `1`, "$", "no alternative"},
		{`(typeof EnumInt)["Nope"]`, `1`, "$", `property "Nope" does not exist`},
		{"typeof Nope", `1`, "$", "not a declared const"},
	}
	runInhabitCases(t, env, cases)

	// tsc semantics on demand: a Record over a finite key type requires every key
	env.StrictRecordKeys = true
	runInhabitCases(t, env, []inhabitCase{
		{"Record<EnumStr,Int>", `{"va":1,"v-b":2}`, "", ""},
		{"Record<EnumStr,Int>", `{"va":1}`, "$", `missing key "v-b"`},
		{"Record<EnumInt,boolean>", `{"0":true,"1.0":true,"2":true,"4":false}`, "", ""},
		{"Record<EnumInt,boolean>", `{}`, "$", `missing key "0"`},
		{"Record<string,Int>", `{}`, "", ""}, {"Record<Int,Int>", `{}`, "", ""},
	})
}

func TestInhabitsIndexedAndGenerics(t *testing.T) {
	env := mustEnv(t, `
interface S { a: string; b: number; "c-d": boolean[] }
type Tup = [string, number]
type Box<T> = { v: T };
interface Resp<T = any, U = T[]> { data: T; list: U }
type Pair<A, B> = [A, B]
const Widened = { A: 0, B: "x" };
const Annotated: Record<string, number> = { A: 0 };
const Scalar = 5;
const Labels = { [Keys.One]: "one", [Keys.Two]: "two" } as const;
const Keys = { One: 1, Two: "deux" } as const;
`)
	runInhabitCases(t, env, []inhabitCase{
		{`S["a"]`, `"x"`, "", ""}, {`S["a"]`, `1`, "$", "expected a string"}, {`S["a" | "b"]`, `1`, "", ""}, {`S["a" | "b"]`, `true`, "$", "no alternative"},
		{`S[keyof S]`, `[true]`, "", ""}, {`S[keyof S]`, `null`, "$", "no alternative"}, {`S["c-d"][number]`, `true`, "", ""},
		{"keyof S", `"c-d"`, "", ""}, {"keyof S", `"e"`, "$", "no alternative"},
		{"Tup[0]", `"a"`, "", ""}, {"Tup[1]", `"a"`, "$", "expected a number"}, {"Tup[number]", `1`, "", ""}, {"Tup[2]", `1`, "$", "no element at index 2"},
		{"string[][number]", `"a"`, "", ""}, {"Record<string, boolean>[string]", `true`, "", ""},
		{"Box<string>", `{"v":"a"}`, "", ""}, {"Box<string>", `{"v":1}`, "$.v", "expected a string"}, {"Box<Box<number[]>>", `{"v":{"v":[1]}}`, "", ""}, {"Box<Box<number[]>>", `{"v":{"v":["a"]}}`, "$.v.v[0]", "expected a number"},
		{"Box", `{"v":1}`, "$", "requires 1 type arguments"}, {"Box<string, number>", `{"v":1}`, "$", "at most 1"}, {"S<string>", `{}`, "$", "not generic"},
		{"Resp", `{"data":{"x":1},"list":[1,"a"]}`, "", ""}, {"Resp<string>", `{"data":"a","list":["b"]}`, "", ""}, {"Resp<string>", `{"data":"a","list":[1]}`, "$.list[0]", "expected a string"},
		{"Resp<string, number>", `{"data":"a","list":1}`, "", ""},
		{"Pair<string, Pair<number, null>>", `["a",[1,null]]`, "", ""}, {"Pair<string, Pair<number, null>>", `["a",[1,2]]`, "$[1][1]", "expected null"},
		{"typeof Widened", `{"A":5,"B":"anything"}`, "", ""}, {"typeof Widened", `{"A":"5","B":"x"}`, "$.A", "expected a number"},
		{"typeof Annotated", `{"x":1,"y":2}`, "", ""}, {"typeof Scalar", `5`, "", ""}, {"typeof Scalar", `6`, "$", "literal 5"},
		{"typeof Labels", `{"1":"one","deux":"two"}`, "", ""}, {"typeof Labels", `{"One":"one","Two":"two"}`, "$", `missing property "1"`},
		{"keyof typeof Labels", `"deux"`, "", ""}, {"(typeof Labels)[keyof typeof Labels]", `"two"`, "", ""}, {"(typeof Labels)[keyof typeof Labels]", `"deux"`, "$", "no alternative"},
	})
}

func TestInhabitsAliasCycles(t *testing.T) {
	env := mustEnv(t, `
type A = B
type B = A
type Selfish = Selfish | null
type Json = string | number | boolean | null | Json[] | { [k: string]: Json }
interface Tree { left: Tree | null, right?: Tree }
type List = { head: number, tail: List } | null
`)
	runInhabitCases(t, env, []inhabitCase{
		{"A", `1`, "$", "circularly references itself"},
		{"Selfish", `null`, "", ""}, {"Selfish", `1`, "$", "no alternative"},
		{"Json", `{"a":[1,"b",null,{"c":[true]}]}`, "", ""},
		{"Tree", `{"left":{"left":null,"right":{"left":null}}}`, "", ""}, {"Tree", `{"left":{"left":1}}`, "$.left.left", "no alternative"},
		{"List", `{"head":1,"tail":{"head":2,"tail":null}}`, "", ""}, {"List", `{"head":1,"tail":{"head":"2","tail":null}}`, "$.tail.head", "expected a number"},
	})
}

func TestInhabitsByName(t *testing.T) {
	env := mustEnv(t, "export interface S { a: string }\nconst K = { A: 1 } as const;")
	if m := env.Inhabits(decode(t, `{"a":"x"}`), "S"); m != nil {
		t.Errorf("unexpected %v", m)
	}
	if m := env.Inhabits(decode(t, `{"a":1}`), "S"); m == nil || m.Path != "$.a" || m.Expected != "string" || m.Got != "1" {
		t.Errorf("got %+v", m)
	}
	if m := env.Inhabits(decode(t, `"x"`), "string"); m != nil {
		t.Errorf("builtin by name: %v", m)
	}
	for _, name := range []string{"Missing", "K", ""} {
		if m := env.Inhabits(decode(t, `1`), name); m == nil || !strings.Contains(m.Reason, "not declared") {
			t.Errorf("Inhabits(_, %q) = %v, want 'not declared'", name, m)
		}
	}
	// documents decoded without UseNumber, or built by hand
	for _, doc := range []any{1.0, 1, int64(1), json.Number("1e0")} {
		if m := env.InhabitsType(doc, &Literal{Kind: "number", Num: "1"}); m != nil {
			t.Errorf("%T: %v", doc, m)
		}
	}
	if m := env.InhabitsType(map[string]any{"a": []any{1.5, "x"}}, &ObjectType{Members: []*Member{{Kind: "property", Key: "a", Type: &ArrayOf{Elem: &Ref{Name: "number"}}}}}); m == nil || m.Path != "$.a[1]" {
		t.Errorf("got %v", m)
	}
	// long documents are abbreviated
	long := decode(t, `{"a":"`+strings.Repeat("é", 200)+`"}`)
	if m := env.Inhabits(long, "string"); m == nil || len(m.Got) > 90 || !strings.HasSuffix(m.Got, "...") {
		t.Errorf("Got = %q", m.Got)
	}
}

// Hand-written raw output of every template of generator/typescript/types.go.
const rawTemplates = `// Code generated by gomacro/generator/typescript. DO NOT EDIT.
export type Ar3_Int = [Int,Int,Int,]
export type Ar2_Ar3_Int = [Ar3_Int,Ar3_Int,]
export type Ar0_string = []

	// AAAA-MM-YY date format
	export type Date_ = string & { __opaque__: 'Date' }

export type Int = number & { __opaque__: 'Int' };

	// ISO date-time string
	export type Time = string & { __opaque__: 'Time' }

export type IdUser = number & { __opaque__: 'IdUser' };
// pkg.Name
	export type Name = string
// pkg.Tags
	export type Tags = ( string[] | null)
// pkg.Matrix
	export type Matrix = ( ( number[] | null)[] | null)
// pkg.Dict
	export type Dict = (Record<Int,( User[] | null)> | null)
// pkg.Color
			export const Color = {
				Red : -1,
Green : 0,
Blue : 1e+06,
			} as const;
			export type Color = (typeof Color)[keyof typeof Color];

			export const ColorLabels: Record<Color, string> = {
				[Color.Red]: "red \"quoted\"",
[Color.Green]: "",
[Color.Blue]: "bléu\n",
			};

// pkg.Ratio
			export const Ratio = {
				Half : 0.5,
Tiny : 1.5e-07,
			} as const;
			export type Ratio = (typeof Ratio)[keyof typeof Ratio];

			export const RatioLabels: Record<Ratio, string> = {
				[Ratio.Half]: "half",
[Ratio.Tiny]: "tiny",
			};

// pkg.Mode
			export const Mode = {
				On : "on",
Off : "off-line",
			} as const;
			export type Mode = (typeof Mode)[keyof typeof Mode];

			export const ModeLabels: Record<Mode, string> = {
				[Mode.On]: "On",
[Mode.Off]: "Off",
			};

// pkg.Empty
export type Empty = Record<string, never>
// pkg.User
export interface User {
				Id: IdUser,
	name: Name,
	with-dash: string,
	Tags: Tags,
	Grid: Ar2_Ar3_Int,
	Created: Time,
	Birth: Date_,
	Color: Color,
	Mode: Mode,
	Ratio: Ratio,
	Perms: (Record<Mode,boolean> | null),
	ByColor: (Record<Color,( Int[] | null)> | null),
	Friends: ( User[] | null),
	Shape: Shape,
	Opaque: unknown,
	Nothing: Empty,
	Zero: Ar0_string,
		}

	export const ShapeKind = {
		Circle: "Circle",
Square: "Square",
Empty: "Empty"
	} as const;
	export type ShapeKind = (typeof ShapeKind)[keyof typeof ShapeKind];

	// pkg.Shape
	export type Shape =
	| { Kind : "Circle", Data: Circle}
| { Kind : "Square", Data: Square}
| { Kind : "Empty", Data: Empty}

// pkg.Circle
export interface Circle {
				R: number,
		}
// pkg.Square
export interface Square {
				Side: Int,
	Inner: ( Shape[] | null),
		}
`

const validUser = `{
	"Id": 7, "name": "bob", "with-dash": "x", "Tags": null, "Grid": [[1,2,3],[4,5,6]],
	"Created": "2020-01-02T03:04:05Z", "Birth": "2020-01-02", "Color": -1, "Mode": "off-line", "Ratio": 1.5e-7,
	"Perms": {"on": true}, "ByColor": {"1000000": [1], "-1": null, "0": []},
	"Friends": [], "Shape": {"Kind": "Square", "Data": {"Side": 2, "Inner": [{"Kind": "Circle", "Data": {"R": 0.5}}, {"Kind": "Empty", "Data": {}}]}},
	"Opaque": {"any": ["thing"]}, "Nothing": {}, "Zero": []
}`

func TestRawTemplates(t *testing.T) {
	// `with-dash: string` is what the struct template prints for a JSON name that is
	// not an identifier: it is not valid TypeScript and must be rejected...
	_, err := Parse(rawTemplates)
	if se, ok := err.(*SyntaxError); !ok || !strings.Contains(se.Msg, `property "with" has no type annotation`) {
		t.Fatalf("unquoted key with dash: got %v", err)
	}
	// ... the quoted form is fine.
	src := strings.Replace(rawTemplates, "\twith-dash: string,", "\t\"with-dash\": string,", 1)
	env := mustEnv(t, src)

	if m := env.Inhabits(decode(t, validUser), "User"); m != nil {
		t.Fatalf("valid user rejected: %v", m)
	}
	mutations := []struct {
		name, old, new string
		path, reason   string
	}{
		{"int brand gets string", `"Id": 7`, `"Id": "7"`, "$.Id", "expected a number"},
		{"named string gets null", `"name": "bob"`, `"name": null`, "$.name", "expected a string"},
		{"missing quoted key", `"with-dash": "x", `, ``, "$", `missing property "with-dash"`},
		{"json name case", `"name": "bob"`, `"Name": "bob"`, "$", `missing property "name"`},
		{"slice not null nor array", `"Tags": null`, `"Tags": {}`, "$.Tags", "no alternative"},
		{"slice element", `"Tags": null`, `"Tags": ["a", 1]`, "$.Tags[1]", "expected a string"},
		{"fixed array too short", `[4,5,6]`, `[4,5]`, "$.Grid[1]", "tuple of length 3"},
		{"fixed array outer too long", `[[1,2,3],[4,5,6]]`, `[[1,2,3],[4,5,6],[7,8,9]]`, "$.Grid", "tuple of length 2"},
		{"fixed array null", `[[1,2,3],[4,5,6]]`, `null`, "$.Grid", "expected an array (tuple)"},
		{"time as number", `"2020-01-02T03:04:05Z"`, `1577934245`, "$.Created", "expected a string"},
		{"enum value not a member", `"Color": -1`, `"Color": 2`, "$.Color", "no alternative"},
		{"enum float form is equal", `"Color": -1`, `"Color": 1.0e6`, "", ""},
		{"enum as its name", `"Color": -1`, `"Color": "Red"`, "$.Color", "no alternative"},
		{"string enum wrong case", `"Mode": "off-line"`, `"Mode": "Off"`, "$.Mode", "no alternative"},
		{"float enum other notation", `"Ratio": 1.5e-7`, `"Ratio": 0.00000015`, "", ""},
		{"float enum other value", `"Ratio": 1.5e-7`, `"Ratio": 0.25`, "$.Ratio", "no alternative"},
		{"map key not in string enum", `{"on": true}`, `{"On": true}`, "$.Perms.On", "not admissible"},
		{"map key not in int enum", `"-1": null`, `"5": null`, `$.ByColor["5"]`, "not admissible"},
		{"map key not numeric", `"-1": null`, `"Red": null`, "$.ByColor.Red", "not admissible"},
		{"map value", `"0": []`, `"0": [true]`, `$.ByColor["0"][0]`, "expected a number"},
		{"map null", `{"on": true}`, `null`, "", ""},
		{"union unknown kind", `"Kind": "Circle"`, `"Kind": "Disc"`, "$.Shape.Data.Inner[0].Kind", "no alternative"},
		{"union data of other member", `{"R": 0.5}`, `{"Side": 1, "Inner": null}`, "$.Shape.Data.Inner[0].Data", `missing property "R"`},
		{"union data field type", `{"R": 0.5}`, `{"R": "0.5"}`, "$.Shape.Data.Inner[0].Data.R", "expected a number"},
		{"union missing Data", `{"Kind": "Empty", "Data": {}}`, `{"Kind": "Empty"}`, "$.Shape.Data.Inner[1]", "no alternative"},
		{"union extra key", `{"Kind": "Empty", "Data": {}}`, `{"Kind": "Empty", "Data": {}, "X": 1}`, "$.Shape.Data.Inner[1].X", "extra property"},
		{"empty struct with content", `"Nothing": {}`, `"Nothing": {"a": 1}`, "$.Nothing.a", "never"},
		{"empty struct null", `"Nothing": {}`, `"Nothing": null`, "$.Nothing", "expected an object"},
		{"zero length array", `"Zero": []`, `"Zero": ["a"]`, "$.Zero", "tuple of length 0"},
		{"opaque accepts anything", `{"any": ["thing"]}`, `null`, "", ""},
		{"extra top level key", `"Zero": []`, `"Zero": [], "Extra": 1`, "$.Extra", "extra property"},
		{"recursive friend", `"Friends": []`, `"Friends": [{"Id": 1}]`, "$.Friends[0]", "missing property"},
	}
	for _, mu := range mutations {
		if !strings.Contains(validUser, mu.old) {
			t.Fatalf("%s: %q not in the valid document", mu.name, mu.old)
		}
		doc := decode(t, strings.Replace(validUser, mu.old, mu.new, 1))
		m := env.Inhabits(doc, "User")
		switch {
		case mu.path == "" && m != nil:
			t.Errorf("%s: unexpected mismatch %v", mu.name, m)
		case mu.path != "" && m == nil:
			t.Errorf("%s: no mismatch, want one at %s", mu.name, mu.path)
		case mu.path != "" && (m.Path != mu.path || !strings.Contains(m.Reason, mu.reason)):
			t.Errorf("%s: got %v\n\twant path %s, reason containing %q", mu.name, m, mu.path, mu.reason)
		}
	}

	runInhabitCases(t, env, []inhabitCase{
		{"Dict", `null`, "", ""}, {"Dict", `{"1":null,"2":[]}`, "", ""}, {"Dict", `{"x":null}`, "$.x", "not admissible"}, {"Dict", `{"1":[{"Id":1}]}`, `$["1"][0]`, "missing property"},
		{"Matrix", `[[1.5],null,[]]`, "", ""}, {"Matrix", `[[1.5],[null]]`, "$[1][0]", "expected a number"},
		{"Empty", `{}`, "", ""}, {"Empty", `[]`, "$", "expected an object"},
		{"ShapeKind", `"Circle"`, "", ""}, {"ShapeKind", `"circle"`, "$", "no alternative"},
		{"typeof ColorLabels", `{"-1":"a","0":"b","1000000":"c"}`, "", ""},
		{"Ar0_string", `[]`, "", ""},
	})

	// the label tables are consts with computed keys
	labels, ok := env.LookupConst("ColorLabels")
	if !ok || labels.Type.String() != "Record<Color, string>" || len(labels.Value.Props) != 3 {
		t.Fatalf("ColorLabels: %+v", labels)
	}
	if p := labels.Value.Props[0]; p.ComputedObj != "Color" || p.ComputedMember != "Red" || p.Value.Str != `red "quoted"` {
		t.Errorf("label 0: %+v", p)
	}
	if p := labels.Value.Props[2]; p.Value.Str != "bléu\n" {
		t.Errorf("label 2: %+v", p)
	}
	color, _ := env.LookupConst("Color")
	var vals []string
	for _, p := range color.Value.Props {
		vals = append(vals, p.Key+"="+p.Value.Num)
	}
	if got := strings.Join(vals, " "); got != "Red=-1 Green=0 Blue=1e+06" {
		t.Errorf("Color values: %s", got)
	}
}

const genDoc = `{
	"with_tag": {"1": 2}, "Time": "2020-01-02T03:04:05Z", "B": "b",
	"Value": {"Kind": "ConcretType1", "Data": {"List2": [1, 2], "V": 3}},
	"L": [{"Kind": "ConcretType2", "Data": {"D": 0.5}}],
	"A": 1, "E": 4, "E2": 3, "Date": "2020-01-02",
	"F": [[true,false,true,false,true],[true,false,true,false,true],[true,false,true,false,true],[true,false,true,false,true],[true,false,true,false,true]],
	"Imported": {"A": 1}, "EnumMap": {"0": true, "2": false}, "OptID1": {"Id": 1}, "OptID2": {"Id": 2}
}`

// The prettified sample of the repository and the raw generator output of the
// same Go source are the same model.
func TestGenTsAndRawFixture(t *testing.T) {
	envs := map[string]*Env{}
	for _, fn := range []string{"/repo/generator/typescript/test/gen.ts", "testdata/types_raw.ts"} {
		b, err := os.ReadFile(fn)
		if err != nil {
			t.Skipf("missing fixture: %v", err)
		}
		envs[fn] = mustEnv(t, string(b))
	}
	pretty, raw := envs["/repo/generator/typescript/test/gen.ts"], envs["testdata/types_raw.ts"]
	if a, b := strings.Join(pretty.TypeNames(), ","), strings.Join(raw.TypeNames(), ","); a != b {
		t.Errorf("type names differ:\n%s\n%s", a, b)
	}
	for _, name := range pretty.TypeNames() {
		a, b := mustLookup(t, pretty, name), mustLookup(t, raw, name)
		if a.String() != b.String() {
			t.Errorf("%s: prettified %s, raw %s", name, a, b)
		}
	}
	for fn, env := range envs {
		if len(env.File.Decls) != 38 {
			t.Errorf("%s: %d declarations, want 38", fn, len(env.File.Decls))
		}
		if m := env.Inhabits(decode(t, genDoc), "ComplexStruct"); m != nil {
			t.Errorf("%s: %v", fn, m)
		}
		cases := []struct{ typ, doc, path string }{
			{"ComplexStruct", strings.Replace(genDoc, `"E": 4`, `"E": 3`, 1), "$.E"},
			{"ComplexStruct", strings.Replace(genDoc, `"E2": 3`, `"E2": 5`, 1), "$.E2"},
			{"ComplexStruct", strings.Replace(genDoc, `{"0": true, "2": false}`, `{"3": true}`, 1), `$.EnumMap["3"]`},
			{"ComplexStruct", strings.Replace(genDoc, `{"1": 2}`, `{"a": 2}`, 1), "$.with_tag.a"},
			{"ComplexStruct", strings.Replace(genDoc, `"with_tag"`, `"With_tag"`, 1), "$"},
			{"ComplexStruct", strings.Replace(genDoc, `"V": 3`, `"V": "3"`, 1), "$.Value.Data.V"},
			{"ComplexStruct", strings.Replace(genDoc, `"D": 0.5`, `"D": null`, 1), "$.L[0].Data.D"},
			{"ComplexStruct", strings.Replace(genDoc, `[true,false,true,false,true]]`, `[true,false,true,false]]`, 1), "$.F[4]"},
			{"RecursiveType", `{"Children":[{"Children":null},{"Children":[{}]}]}`, "$.Children[1].Children[0]"},
			{"ItfType2", `{"Kind":"ConcretType2","Data":{"D":1}}`, "$.Kind"},
			{"StructWithExternalRef", `{"Field1":[0,1,2],"Field2":null,"Field3":1}`, ""},
			{"StructWithExternalRef", `{"Field1":[0,1,3],"Field2":null,"Field3":1}`, "$.Field1[2]"},
			{"WithOpaque", `{"F1":{"Field1":null,"Field2":null,"Field3":1},"F2":null,"F3":[1]}`, ""},
			{"Basic1", `1`, ""}, {"Basic2", `true`, ""}, {"Basic3", `1.5`, ""}, {"Basic4", `"s"`, ""}, {"Basic2", `1`, "$"},
			{"MyDate", `"2020-01-01"`, ""}, {"MyDate", `20200101`, "$"},
			{"ItfList", `null`, ""}, {"NamedSlice", `[0,1,2]`, ""}, {"NamedSlice", `[3]`, "$[0]"},
			{"EnumUInt", `4`, ""}, {"EnumUInt", `5`, "$"}, {"Enum", `2`, ""},
		}
		for _, tc := range cases {
			m := env.Inhabits(decode(t, tc.doc), tc.typ)
			if tc.path == "" && m != nil || tc.path != "" && (m == nil || m.Path != tc.path) {
				t.Errorf("%s: %s: got %v, want mismatch path %q", fn, tc.typ, m, tc.path)
			}
		}
	}
}

func TestResolve(t *testing.T) {
	env := mustEnv(t, "const E = { A: 1, B: \"b\" } as const;\ntype E = (typeof E)[keyof typeof E];\ntype Int = number & { __opaque__: 'Int' };\ntype L = Int[]\ninterface S { a: Int }")
	tests := []struct{ typ, want string }{
		{"E", `1 | "b"`}, {"keyof typeof E", `"A" | "B"`}, {"typeof E", `{ readonly A: 1; readonly B: "b" }`},
		{"Int", `number & { __opaque__: "Int" }`}, {"L", "Int[]"}, {"Array<Int>", "Int[]"}, {"S", "{ a: Int }"}, {"string", "string"}, {"Readonly<L>", "Int[]"},
		{"Partial<S>", "{ a?: Int }"},
	}
	for _, tc := range tests {
		ty, _ := ParseType(tc.typ)
		got, err := env.Resolve(ty)
		if err != nil || got.String() != tc.want {
			t.Errorf("Resolve(%s) = %v, %v; want %s", tc.typ, got, err, tc.want)
		}
	}
	for _, bad := range []string{"typeof Nope", "keyof string", "E[0]", `S["zz"]`, "Partial<string>"} {
		ty, _ := ParseType(bad)
		if got, err := env.Resolve(ty); err == nil {
			t.Errorf("Resolve(%s) = %v, want an error", bad, got)
		}
	}
}
