package tsmodel

import (
	"sort"
	"strings"
)

// StripResult is the result of Strip.
type StripResult struct {
	JS         string
	Imports    []string // local names bound by the removed (non type-only) imports: default, namespace and named bindings
	ClassNames []string // classes kept in JS, in source order
	ConstNames []string // top level consts kept in JS, in source order
}

// Strip converts a generated client file (declarations and class) into plain
// JavaScript. Imports and exports are removed (the caller injects the
// imported values, e.g. by wrapping JS in a function), type level declarations
// and annotations are removed; everything else is kept byte for byte and every
// line keeps its line number.
//
// Unlike Parse, Strip tolerates arbitrary JavaScript statements at top level.
func Strip(src string) (*StripResult, error) {
	f, err := parseFile(src, true)
	if err != nil {
		return nil, err
	}
	res := &StripResult{JS: applyEdits(src, f.edits)}
	for _, imp := range f.Imports {
		if imp.TypeOnly {
			continue
		}
		if imp.Default != "" {
			res.Imports = append(res.Imports, imp.Default)
		}
		if imp.Namespace != "" {
			res.Imports = append(res.Imports, imp.Namespace)
		}
		for _, n := range imp.Named {
			if !n.TypeOnly {
				res.Imports = append(res.Imports, n.Alias)
			}
		}
	}
	for _, it := range f.items {
		switch {
		case it.kind == itClass && it.class.Name != "":
			res.ClassNames = append(res.ClassNames, it.class.Name)
		case it.kind == itDecl && it.decl.Kind == "const" && !it.decl.Declare:
			res.ConstNames = append(res.ConstNames, it.decl.Name)
		}
	}
	return res, nil
}

// applyEdits applies the edits to src. Edits nested in a larger edit are
// dropped. Replaced text keeps the number of line terminators of the original
// so that line numbers are stable.
func applyEdits(src string, edits []edit) string {
	sorted := append([]edit(nil), edits...)
	sort.SliceStable(sorted, func(i, j int) bool {
		if sorted[i].pos != sorted[j].pos {
			return sorted[i].pos < sorted[j].pos
		}
		// insertions first, then larger deletions
		li, lj := sorted[i].end-sorted[i].pos, sorted[j].end-sorted[j].pos
		if (li == 0) != (lj == 0) {
			return li == 0
		}
		return li > lj
	})
	var b strings.Builder
	at := 0
	for _, ed := range sorted {
		if ed.pos < at { // nested in (or overlapping) a previous deletion
			if ed.end > at && ed.end > ed.pos {
				// partial overlap: extend the deletion
				b.WriteString(strings.Repeat("\n", strings.Count(src[at:ed.end], "\n")))
				at = ed.end
			}
			continue
		}
		b.WriteString(src[at:ed.pos])
		b.WriteString(ed.text)
		if missing := strings.Count(src[ed.pos:ed.end], "\n") - strings.Count(ed.text, "\n"); missing > 0 {
			b.WriteString(strings.Repeat("\n", missing))
		}
		at = ed.end
	}
	b.WriteString(src[at:])
	return b.String()
}
