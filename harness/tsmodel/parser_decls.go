package tsmodel

import "strings"

// Parse parses a generated declaration file or client file strictly: only
// imports, type aliases, interfaces, consts, classes and export statements are
// allowed at top level.
func Parse(src string) (*File, error) { return parseFile(src, false) }

// ParseType parses a single type expression such as `( Int[] | null)`.
func ParseType(src string) (t Type, err error) {
	lines := newLineIndex(src)
	toks, err := lex(src, lines)
	if err != nil {
		return nil, err
	}
	p := &parser{src: src, toks: toks, lines: lines}
	defer func() {
		if r := recover(); r != nil {
			se, ok := r.(*SyntaxError)
			if !ok {
				panic(r)
			}
			t, err = nil, se
		}
	}()
	t = p.parseType()
	if nx := p.peek(); nx.kind != tEOF {
		p.fail(nx, "unexpected %s after type", nx.describe())
	}
	return t, nil
}

func parseFile(src string, tolerant bool) (f *File, err error) {
	lines := newLineIndex(src)
	toks, err := lex(src, lines)
	if err != nil {
		return nil, err
	}
	p := &parser{src: src, toks: toks, lines: lines, tolerant: tolerant}
	f = &File{src: src, lines: lines}
	defer func() {
		if r := recover(); r != nil {
			se, ok := r.(*SyntaxError)
			if !ok {
				panic(r)
			}
			f, err = nil, se
		}
	}()
	for p.peek().kind != tEOF {
		if p.accept(";") {
			continue
		}
		p.parseStatement(f)
	}
	f.edits = p.edits
	return f, nil
}

func (p *parser) endStatement(what string) {
	nx := p.peek()
	switch {
	case nx.is(";"):
		p.next()
	case nx.kind == tEOF || nx.nl || nx.is("}"):
	default:
		p.fail(nx, "expected ';' or a newline after %s, found %s", what, nx.describe())
	}
}

func (p *parser) parseStatement(f *File) {
	t := p.peek()
	start := t.pos
	if t.kind == tIdent {
		switch t.text {
		case "import":
			if !p.peekAt(1).is("(") && !p.peekAt(1).is(".") {
				p.parseImport(f)
				return
			}
		case "export":
			p.parseExport(f)
			return
		}
		if p.parseDeclaration(f, start, false, false) {
			return
		}
	}
	p.otherStatement(f, start)
}

// otherStatement handles a statement that is not part of the modelled subset.
func (p *parser) otherStatement(f *File, start int) {
	t := p.peek()
	if !p.tolerant {
		p.fail(t, "unexpected %s at top level: expected an import, a type alias, an interface, a const, a class or an export", t.describe())
	}
	from := p.i
	if p.peek().is("}") || p.peek().is(")") || p.peek().is("]") {
		p.fail(t, "unbalanced %s", t.describe())
	}
	p.skipExpr(false, true)
	if p.i == from {
		p.next()
	}
	p.accept(";")
	p.scanCode(from, p.i)
	f.items = append(f.items, &item{kind: itOther, pos: start, end: p.prevEnd()})
}

// parseDeclaration parses `[declare] (type|interface|const|[abstract] class|enum) ...`
// if the next tokens start one; it reports whether it did.
func (p *parser) parseDeclaration(f *File, start int, exported, isDefault bool) bool {
	declare := false
	if t := p.peek(); t.isIdent("declare") && p.peekAt(1).kind == tIdent && !p.peekAt(1).nl {
		declare = true
		p.next()
	}
	t, n := p.peek(), p.peekAt(1)
	if t.kind != tIdent {
		if declare {
			p.fail(t, "expected a declaration after 'declare', found %s", t.describe())
		}
		return false
	}
	strictOrNamed := !p.tolerant || exported || declare || (n.kind == tIdent && !n.nl)
	var d *Decl
	switch {
	case t.text == "type" && strictOrNamed:
		d = p.parseTypeAlias()
	case t.text == "interface" && strictOrNamed:
		d = p.parseInterface()
	case t.text == "const" && !n.isIdent("enum") || declare && (t.text == "let" || t.text == "var"):
		d = p.parseConst(start, exported, declare)
	case t.text == "class" || t.text == "abstract" && n.isIdent("class"):
		c := p.parseClass(start, exported, isDefault)
		if declare {
			p.del(start, c.end)
		}
		f.Classes = append(f.Classes, c)
		if f.Class == nil {
			f.Class = c
		}
		f.items = append(f.items, &item{kind: itClass, pos: start, end: c.end, class: c})
		return true
	case t.text == "enum" || t.text == "const" && n.isIdent("enum"):
		p.fail(t, "enum declarations are not supported")
	case declare && t.text == "function":
		p.skipExpr(false, true)
		p.accept(";")
		p.del(start, p.prevEnd())
		f.items = append(f.items, &item{kind: itOther, pos: start, end: p.prevEnd()})
		return true
	case declare:
		p.fail(t, "unsupported 'declare %s' declaration", t.text)
	default:
		return false
	}
	d.Exported, d.Declare = exported, declare
	if d.Kind != "const" || declare {
		p.del(start, p.prevEnd())
	}
	f.Decls = append(f.Decls, d)
	f.items = append(f.items, &item{kind: itDecl, pos: start, end: p.prevEnd(), decl: d})
	return true
}

func (p *parser) declName(what string) token {
	t := p.peek()
	if t.kind != tIdent {
		p.fail(t, "expected the name of the %s, found %s", what, t.describe())
	}
	if reservedWords[t.text] {
		p.fail(t, "reserved word %s cannot be used as the name of a %s", t.describe(), what)
	}
	return p.next()
}

func (p *parser) parseTypeAlias() *Decl {
	p.next() // type
	name := p.declName("type alias")
	if predefinedTypeNames[name.text] {
		p.fail(name, "type alias name cannot be %q", name.text)
	}
	d := &Decl{Kind: "type", Name: name.text, Line: p.line(name)}
	if p.peek().is("<") {
		d.TypeParams = p.parseTypeParams()
	}
	if !p.peek().is("=") {
		p.fail(p.peek(), "expected '=' in type alias %s, found %s", name.text, p.peek().describe())
	}
	p.next()
	d.Type = p.parseType()
	p.endStatement("type alias " + name.text)
	return d
}

func (p *parser) parseInterface() *Decl {
	p.next() // interface
	name := p.declName("interface")
	if predefinedTypeNames[name.text] {
		p.fail(name, "interface name cannot be %q", name.text)
	}
	d := &Decl{Kind: "interface", Name: name.text, Line: p.line(name)}
	if p.peek().is("<") {
		d.TypeParams = p.parseTypeParams()
	}
	if p.peek().isIdent("extends") {
		p.next()
		for {
			d.Extends = append(d.Extends, p.parsePostfix())
			if !p.accept(",") {
				break
			}
		}
	}
	if !p.peek().is("{") {
		p.fail(p.peek(), "expected '{' to open the body of interface %s, found %s", name.text, p.peek().describe())
	}
	d.Type = p.parseObjectType()
	return d
}

func (p *parser) parseConst(start int, exported, declare bool) *Decl {
	kw := p.next() // const
	if exported {
		p.del(start, kw.pos)
	}
	name := p.declName("const")
	d := &Decl{Kind: "const", Name: name.text, Line: p.line(name)}
	if p.accept("!") {
		p.del(name.end, p.prevEnd())
	}
	if p.accept(":") {
		d.Type = p.parseType()
		p.del(name.end, p.prevEnd())
	}
	if p.accept("=") {
		if declare {
			p.fail(p.toks[p.i-1], "initialisers are not allowed in ambient declarations")
		}
		from := p.i
		if p.peek().is("{") {
			d.Value = p.parseObjectLit()
		} else {
			lv := p.parseLitValue(false)
			d.Init = &lv
		}
		for {
			nx := p.peek()
			if (nx.isIdent("as") || nx.isIdent("satisfies")) && !nx.nl {
				p.next()
				if p.peek().isIdent("const") && nx.text == "as" {
					p.next()
					d.AsConst = true
				} else {
					d.CastType = p.parseType()
				}
				continue
			}
			break
		}
		p.scanCode(from, p.i)
	} else if !declare {
		p.fail(p.peek(), "const %s must be initialised: expected '=', found %s", name.text, p.peek().describe())
	} else if d.Type == nil {
		p.fail(p.peek(), "ambient const %s has no type annotation", name.text)
	}
	if p.peek().is(",") {
		p.fail(p.peek(), "multiple declarators in one const statement are not supported")
	}
	p.endStatement("const " + name.text)
	return d
}

// parseLitValue parses a literal, or skips an arbitrary expression (Kind "other").
func (p *parser) parseLitValue(inObject bool) LitValue {
	from := p.i
	t := p.peek()
	ends := func(nx token) bool {
		if inObject {
			return nx.is(",") || nx.is("}")
		}
		return nx.is(";") || nx.kind == tEOF || nx.nl || nx.isIdent("as") || nx.isIdent("satisfies")
	}
	switch {
	case t.kind == tStr && ends(p.peekAt(1)):
		p.next()
		return LitValue{Kind: "string", Str: t.val, Raw: t.text}
	case t.kind == tNum && !t.bigint && ends(p.peekAt(1)):
		p.next()
		return LitValue{Kind: "number", Num: t.text, Raw: t.text}
	case (t.is("-") || t.is("+")) && p.peekAt(1).kind == tNum && !p.peekAt(1).bigint && ends(p.peekAt(2)):
		p.next()
		n := p.next()
		sign := ""
		if t.is("-") {
			sign = "-"
		}
		return LitValue{Kind: "number", Num: sign + n.text, Raw: p.src[t.pos:n.end]}
	case (t.isIdent("true") || t.isIdent("false")) && ends(p.peekAt(1)):
		p.next()
		return LitValue{Kind: "boolean", Bool: t.text == "true", Raw: t.text}
	}
	if inObject {
		p.skipExpr(true, false)
	} else {
		// stop before a top level `as` / `satisfies`
		depth := 0
		for {
			nx := p.peek()
			if nx.kind == tEOF {
				break
			}
			if depth == 0 && (nx.is(";") || nx.is(",") || nx.is(")") || nx.is("]") || nx.is("}") ||
				(nx.isIdent("as") || nx.isIdent("satisfies")) && p.i > from && !nx.nl ||
				nx.nl && p.i > from && isExprEnd(p.toks[p.i-1]) && (nx.kind == tIdent || nx.kind == tStr || nx.kind == tNum)) {
				break
			}
			if nx.is("(") || nx.is("[") || nx.is("{") {
				depth++
			} else if nx.is(")") || nx.is("]") || nx.is("}") {
				depth--
			}
			p.next()
		}
		if depth != 0 {
			p.fail(t, "unbalanced brackets in expression")
		}
	}
	if p.i == from {
		p.fail(t, "expected an expression, found %s", t.describe())
	}
	return LitValue{Kind: "other", Raw: p.src[t.pos:p.prevEnd()]}
}

func (p *parser) parseObjectLit() *ObjectLit {
	open := p.expect("{")
	obj := &ObjectLit{Props: []*Prop{}}
	for !p.peek().is("}") {
		t := p.peek()
		if t.kind == tEOF {
			p.fail(open, "unbalanced '{': object literal is not closed")
		}
		if t.is(",") {
			p.fail(t, "empty property in object literal")
		}
		pr := &Prop{Line: p.line(t)}
		switch {
		case t.is("["):
			m := p.matchClose(p.i, len(p.toks))
			if m < 0 {
				p.fail(t, "unbalanced '[' in computed property name")
			}
			if m == p.i+1 {
				p.fail(t, "empty computed property name")
			}
			pr.Computed = true
			pr.Key = strings.TrimSpace(p.src[t.end:p.toks[m].pos])
			if m == p.i+4 && p.toks[p.i+1].kind == tIdent && p.toks[p.i+2].is(".") && p.toks[p.i+3].kind == tIdent {
				pr.ComputedObj, pr.ComputedMember = p.toks[p.i+1].text, p.toks[p.i+3].text
			}
			p.i = m + 1
			p.expect(":")
			pr.Value = p.parseLitValue(true)
		case t.is("..."):
			p.next()
			pr.Key = "..."
			from := p.peek().pos
			p.skipExpr(true, false)
			pr.Value = LitValue{Kind: "other", Raw: p.src[from:p.prevEnd()]}
		case isKeyToken(t):
			p.next()
			switch t.kind {
			case tStr:
				pr.Key, pr.Quoted = t.val, true
			case tNum:
				pr.Key = canonicalNumberKey(t.val)
			default:
				pr.Key = t.text
			}
			nx := p.peek()
			switch {
			case nx.is(":"):
				p.next()
				if p.peek().is(",") || p.peek().is("}") {
					p.fail(p.peek(), "property %s has no value", jsQuote(pr.Key))
				}
				pr.Value = p.parseLitValue(true)
			case (nx.is(",") || nx.is("}")) && t.kind == tIdent && !reservedWords[t.text]:
				pr.Value = LitValue{Kind: "other", Raw: t.text} // shorthand
			default:
				p.fail(nx, "expected ':' after property name %s, found %s", jsQuote(pr.Key), nx.describe())
			}
		default:
			p.fail(t, "expected a property name, found %s", t.describe())
		}
		obj.Props = append(obj.Props, pr)
		if !p.accept(",") {
			if !p.peek().is("}") {
				p.fail(p.peek(), "expected ',' or '}' after property %s, found %s", jsQuote(pr.Key), p.peek().describe())
			}
		}
	}
	p.expect("}")
	return obj
}

func (p *parser) parseImport(f *File) {
	kw := p.next()
	imp := &Import{Line: p.line(kw)}
	if p.peek().kind == tStr { // side effect import
		imp.Module = p.next().val
	} else {
		if t := p.peek(); t.isIdent("type") {
			n, n2 := p.peekAt(1), p.peekAt(2)
			if n.is("{") || n.is("*") || n.kind == tIdent && !(n.text == "from" && n2.kind == tStr) {
				imp.TypeOnly = true
				p.next()
			}
		}
		if t := p.peek(); t.kind == tIdent {
			if reservedWords[t.text] {
				p.fail(t, "reserved word %s cannot be used as import name", t.describe())
			}
			imp.Default = p.next().text
			if !p.peek().isIdent("from") {
				p.expect(",")
			}
		}
		switch {
		case p.peek().is("*"):
			p.next()
			if !p.peek().isIdent("as") {
				p.fail(p.peek(), "expected 'as' in namespace import, found %s", p.peek().describe())
			}
			p.next()
			imp.Namespace = p.declName("namespace import").text
		case p.peek().is("{"):
			p.next()
			for !p.peek().is("}") {
				in := ImportName{}
				if p.peek().isIdent("type") && (p.peekAt(1).kind == tIdent || p.peekAt(1).kind == tStr) && !p.peekAt(1).isIdent("as") {
					p.next()
					in.TypeOnly = true
				}
				t := p.peek()
				if t.kind != tIdent && t.kind != tStr {
					p.fail(t, "expected an import name, found %s", t.describe())
				}
				p.next()
				in.Name = t.text
				if t.kind == tStr {
					in.Name = t.val
				}
				in.Alias = in.Name
				if p.peek().isIdent("as") {
					p.next()
					in.Alias = p.declName("import alias").text
				} else if t.kind == tStr || reservedWords[t.text] {
					p.fail(t, "%s cannot be used as a local import name", t.describe())
				}
				imp.Named = append(imp.Named, in)
				if !p.accept(",") {
					break
				}
			}
			p.expect("}")
		default:
			if imp.Default == "" {
				p.fail(p.peek(), "malformed import: found %s", p.peek().describe())
			}
		}
		if !p.peek().isIdent("from") {
			p.fail(p.peek(), "expected 'from' in import, found %s", p.peek().describe())
		}
		p.next()
		if p.peek().kind != tStr {
			p.fail(p.peek(), "expected a module name string, found %s", p.peek().describe())
		}
		imp.Module = p.next().val
	}
	p.endStatement("import")
	p.del(kw.pos, p.prevEnd())
	f.Imports = append(f.Imports, imp)
	f.items = append(f.items, &item{kind: itImport, pos: kw.pos, end: p.prevEnd(), imp: imp})
}

func (p *parser) parseExport(f *File) {
	kw := p.next()
	start := kw.pos
	t := p.peek()
	switch {
	case t.isIdent("default"):
		p.next()
		n, n1 := p.peek(), p.peekAt(1)
		if n.isIdent("class") || n.isIdent("abstract") && n1.isIdent("class") {
			p.parseDeclaration(f, start, true, true)
			return
		}
		if n.isIdent("function") || n.isIdent("async") && n1.isIdent("function") {
			p.del(start, n.pos)
			p.otherStatement(f, start)
			return
		}
		if n.isIdent("interface") {
			p.parseDeclaration(f, start, true, true)
			return
		}
		from := p.peek().pos
		p.skipExpr(false, true)
		if p.prevEnd() <= from {
			p.fail(p.peek(), "expected an expression after 'export default', found %s", p.peek().describe())
		}
		f.DefaultExport = p.src[from:p.prevEnd()]
		p.endStatement("export default")
		p.del(start, p.prevEnd())
		f.items = append(f.items, &item{kind: itExportDefault, pos: start, end: p.prevEnd()})
	case t.is("{") || t.is("*") || t.isIdent("type") && p.peekAt(1).is("{"):
		if t.isIdent("type") {
			p.next()
		}
		var names []string
		if p.accept("*") {
			if p.peek().isIdent("as") {
				p.next()
				names = append(names, p.next().text)
			}
			if !p.peek().isIdent("from") {
				p.fail(p.peek(), "expected 'from' after 'export *', found %s", p.peek().describe())
			}
		} else {
			p.next()
			for !p.peek().is("}") {
				if p.peek().isIdent("type") && p.peekAt(1).kind == tIdent && !p.peekAt(1).isIdent("as") {
					p.next()
				}
				n := p.peek()
				if n.kind != tIdent && n.kind != tStr {
					p.fail(n, "expected an export name, found %s", n.describe())
				}
				p.next()
				name := n.text
				if p.peek().isIdent("as") {
					p.next()
					a := p.next()
					if a.kind != tIdent && a.kind != tStr {
						p.fail(a, "expected an export alias, found %s", a.describe())
					}
					name = a.text
				}
				names = append(names, name)
				if !p.accept(",") {
					break
				}
			}
			p.expect("}")
		}
		if p.peek().isIdent("from") {
			p.next()
			if p.peek().kind != tStr {
				p.fail(p.peek(), "expected a module name string, found %s", p.peek().describe())
			}
			p.next()
		}
		p.endStatement("export list")
		p.del(start, p.prevEnd())
		f.ExportLists = append(f.ExportLists, names)
		f.items = append(f.items, &item{kind: itExportList, pos: start, end: p.prevEnd()})
	default:
		if t.kind == tIdent && p.parseDeclaration(f, start, true, false) {
			return
		}
		if p.tolerant && t.kind == tIdent && (t.text == "function" || t.text == "let" || t.text == "var" || t.text == "async") {
			p.del(start, t.pos)
			p.otherStatement(f, start)
			return
		}
		p.fail(t, "expected a declaration after 'export', found %s", t.describe())
	}
}
