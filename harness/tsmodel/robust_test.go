package tsmodel

import (
	"os"
	"testing"
)

// Parse and Strip never panic: every prefix and every single byte deletion of
// the samples either parses or gives a *SyntaxError.
func TestNoPanicOnDamagedInput(t *testing.T) {
	samples := []string{rawClient, rawTemplates, rawTemplates2}
	for _, fn := range []string{"testdata/types_raw.ts", "testdata/axios_raw.ts", "/repo/analysis/httpapi/test/axios.ts"} {
		if b, err := os.ReadFile(fn); err == nil {
			samples = append(samples, string(b))
		}
	}
	try := func(src, what string) {
		defer func() {
			if r := recover(); r != nil {
				t.Fatalf("panic on %s: %v\nsource:\n%s", what, r, src)
			}
		}()
		f, err := Parse(src)
		if err != nil {
			if _, ok := err.(*SyntaxError); !ok {
				t.Fatalf("Parse: %s: error %T %v", what, err, err)
			}
		} else {
			env, _ := NewEnv(f)
			f.ReferencedTypeNames()
			for _, name := range env.TypeNames() {
				env.Inhabits(map[string]any{}, name)
			}
		}
		if _, err := Strip(src); err != nil {
			if _, ok := err.(*SyntaxError); !ok {
				t.Fatalf("Strip: %s: error %T %v", what, err, err)
			}
		}
	}
	for _, src := range samples {
		step := 5 // TSMODEL_EXHAUSTIVE=1 tries every offset (about 20 s)
		if os.Getenv("TSMODEL_EXHAUSTIVE") != "" {
			step = 1
		} else if testing.Short() {
			step = 31
		}
		for i := 0; i <= len(src); i += step {
			try(src[:i], "prefix")
			if i < len(src) {
				try(src[:i]+src[i+1:], "deletion")
			}
		}
	}
}
