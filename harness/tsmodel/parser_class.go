package tsmodel

import "strings"

var classModifiers = map[string]bool{
	"public": true, "private": true, "protected": true, "readonly": true, "static": true, "abstract": true,
	"override": true, "async": true, "declare": true, "accessor": true,
}

// modifiers that only exist in TypeScript
var tsOnlyModifiers = map[string]bool{
	"public": true, "private": true, "protected": true, "readonly": true, "abstract": true, "override": true, "declare": true,
}

func (p *parser) parseClass(start int, exported, isDefault bool) *Class {
	c := &Class{Exported: exported, Default: isDefault, pos: start}
	if p.peek().isIdent("abstract") {
		p.next()
		c.Abstract = true
	}
	kw := p.next() // class
	p.del(start, kw.pos)
	c.Line = p.line(kw)
	if t := p.peek(); t.kind == tIdent && !t.isIdent("extends") && !t.isIdent("implements") {
		c.Name = p.declName("class").text
	} else if !isDefault {
		p.fail(t, "expected the name of the class, found %s", t.describe())
	}
	if p.peek().is("<") {
		from := p.peek().pos
		c.TypeParams = p.parseTypeParams()
		p.del(from, p.prevEnd())
	}
	if p.peek().isIdent("extends") {
		p.next()
		t := p.peek()
		if t.kind == tIdent && !reservedWords[t.text] {
			c.Extends = p.parseQualifiedName()
			if p.peek().is("<") {
				from := p.peek().pos
				ok := p.try(func() {
					p.parseTypeArgs()
					if nx := p.peek(); !nx.is("{") && !nx.isIdent("implements") {
						p.fail(nx, "not type arguments")
					}
				})
				if ok {
					p.del(from, p.prevEnd())
				}
			}
		}
		if nx := p.peek(); !nx.is("{") && !nx.isIdent("implements") {
			// arbitrary expression
			for !p.peek().is("{") && !p.peek().isIdent("implements") {
				if p.peek().kind == tEOF {
					p.fail(t, "malformed extends clause")
				}
				if p.peek().is("(") || p.peek().is("[") {
					m := p.matchClose(p.i, len(p.toks))
					if m < 0 {
						p.fail(p.peek(), "unbalanced %s", p.peek().describe())
					}
					p.i = m
				}
				p.next()
			}
			c.Extends = strings.TrimSpace(p.src[t.pos:p.prevEnd()])
		}
		if c.Extends == "" {
			p.fail(t, "expected a base class after 'extends', found %s", t.describe())
		}
	}
	if p.peek().isIdent("implements") {
		from := p.next().pos
		for {
			c.Implements = append(c.Implements, p.parsePostfix())
			if !p.accept(",") {
				break
			}
		}
		p.del(from, p.prevEnd())
	}
	if !p.peek().is("{") {
		p.fail(p.peek(), "expected '{' to open the body of class %s, found %s", c.Name, p.peek().describe())
	}
	open := p.next()
	for !p.peek().is("}") {
		if p.peek().kind == tEOF {
			p.fail(open, "unbalanced '{': body of class %s is not closed", c.Name)
		}
		if p.accept(";") {
			continue
		}
		p.parseClassMember(c)
	}
	closing := p.next()
	c.end = closing.end
	c.RawBody = p.src[open.pos:closing.end]
	return c
}

func (p *parser) endMember(what string) {
	nx := p.peek()
	switch {
	case nx.is(";"):
		p.next()
	case nx.is("}") || nx.nl || nx.kind == tEOF:
	default:
		p.fail(nx, "expected ';' or a newline after %s, found %s", what, nx.describe())
	}
}

func (p *parser) parseClassMember(c *Class) {
	start := p.peek().pos
	var mods []string
	has := func(m string) bool {
		for _, x := range mods {
			if x == m {
				return true
			}
		}
		return false
	}
	for {
		t, n := p.peek(), p.peekAt(1)
		if t.kind == tIdent && classModifiers[t.text] && !n.nl &&
			(isKeyToken(n) || n.is("[") || n.is("*") || t.text == "static" && n.is("{")) {
			p.next()
			mods = append(mods, t.text)
			if tsOnlyModifiers[t.text] {
				p.del(t.pos, n.pos)
			}
			continue
		}
		break
	}
	if has("static") && p.peek().is("{") { // static initialisation block
		m := p.matchClose(p.i, len(p.toks))
		if m < 0 {
			p.fail(p.peek(), "unbalanced '{' in static block")
		}
		p.scanCode(p.i+1, m)
		p.i = m + 1
		return
	}
	accessor := ""
	if t, n := p.peek(), p.peekAt(1); (t.isIdent("get") || t.isIdent("set")) && !n.nl && (isKeyToken(n) || n.is("[")) {
		p.next()
		accessor = t.text
	}
	generator := p.accept("*")

	t := p.peek()
	name, quoted := "", false
	switch {
	case t.is("["):
		if p.peekAt(1).kind == tIdent && p.peekAt(2).is(":") { // index signature
			p.next()
			p.next()
			p.next()
			p.parseType()
			p.expect("]")
			p.expect(":")
			p.parseType()
			p.endMember("index signature")
			p.del(start, p.prevEnd())
			return
		}
		m := p.matchClose(p.i, len(p.toks))
		if m < 0 {
			p.fail(t, "unbalanced '[' in computed member name")
		}
		name = p.src[t.pos:p.toks[m].end]
		p.i = m + 1
	case isKeyToken(t):
		p.next()
		name = t.text
		if t.kind == tStr {
			name, quoted = t.val, true
		}
	default:
		p.fail(t, "expected a class member, found %s", t.describe())
	}
	nameEnd := p.prevEnd()
	line := p.line(t)
	optional := false
	if p.peek().is("?") || p.peek().is("!") && !p.peek().nl {
		optional = p.next().is("?")
	}

	if p.peek().is("(") || p.peek().is("<") {
		m := &Method{Name: name, Modifiers: mods, Async: has("async"), Abstract: has("abstract"), Static: has("static"),
			Generator: generator, Accessor: accessor, Optional: optional, Line: line}
		p.del(nameEnd, p.prevEnd()) // `?`
		if p.peek().is("<") {
			from := p.peek().pos
			m.TypeParams = p.parseTypeParams()
			p.del(from, p.prevEnd())
		}
		m.Params = p.parseParams()
		if p.peek().is(":") {
			from := p.next().pos
			m.Return = p.parseReturnType()
			p.del(from, p.prevEnd())
		}
		isCtor := name == "constructor" && !quoted && !has("static")
		if m.Abstract && !c.Abstract {
			p.fail(t, "abstract method %s can only appear within an abstract class", name)
		}
		if p.peek().is("{") {
			if m.Abstract {
				p.fail(p.peek(), "abstract method %s cannot have an implementation", name)
			}
			if has("declare") {
				p.fail(p.peek(), "'declare' modifier cannot be used on a method with a body")
			}
			open := p.i
			closeIdx := p.matchClose(open, len(p.toks))
			if closeIdx < 0 {
				p.fail(p.peek(), "unbalanced '{': body of method %s is not closed", name)
			}
			m.Body = p.src[p.toks[open].pos:p.toks[closeIdx].end]
			m.BodyAnnotations = p.scanCode(open+1, closeIdx)
			if isCtor {
				p.ctorProperties(c, m, open, closeIdx)
			}
			p.i = closeIdx + 1
		} else {
			p.endMember("signature of method " + name)
			p.del(start, p.prevEnd())
			if isCtor {
				for _, pa := range m.Params {
					if len(pa.Modifiers) > 0 {
						p.fail(t, "parameter property %s in a constructor without body", pa.Name)
					}
				}
			}
		}
		if isCtor {
			if m.Body != "" || c.Ctor == nil {
				c.Ctor, c.CtorParams = m, m.Params
			}
		} else {
			c.Methods = append(c.Methods, m)
		}
		return
	}

	if accessor != "" || generator {
		p.fail(p.peek(), "expected '(' after %s, found %s", name, p.peek().describe())
	}
	pr := &ClassProp{Name: name, Modifiers: mods, Optional: optional, Line: line}
	if p.accept(":") {
		pr.Type = p.parseType()
	}
	p.del(nameEnd, p.prevEnd())
	if p.accept("=") {
		from := p.i
		p.skipExpr(false, true)
		if p.i == from {
			p.fail(p.peek(), "expected an initialiser for %s, found %s", name, p.peek().describe())
		}
		pr.Init = p.src[p.toks[from].pos:p.prevEnd()]
		p.scanCode(from, p.i)
	}
	p.endMember("property " + name)
	if has("abstract") || has("declare") {
		if has("abstract") && !c.Abstract {
			p.fail(t, "abstract property %s can only appear within an abstract class", name)
		}
		p.del(start, p.prevEnd())
	}
	c.Props = append(c.Props, pr)
}

// ctorProperties turns parameter properties into assignments at the top of
// the constructor body (after the super call in a derived class).
func (p *parser) ctorProperties(c *Class, m *Method, open, closeIdx int) {
	var b strings.Builder
	for _, pa := range m.Params {
		if len(pa.Modifiers) == 0 {
			continue
		}
		if !isIdentifierName(pa.Name) {
			p.fail(p.toks[open], "parameter property %q must be a plain identifier", pa.Name)
		}
		b.WriteString(" this." + pa.Name + " = " + pa.Name + ";")
	}
	if b.Len() == 0 {
		return
	}
	at := p.toks[open].end
	if c.Extends != "" {
		depth := 0
		for k := open + 1; k < closeIdx; k++ {
			t := p.toks[k]
			if t.is("{") || t.is("(") || t.is("[") {
				depth++
			} else if t.is("}") || t.is(")") || t.is("]") {
				depth--
			} else if depth == 0 && t.isIdent("super") && p.toks[k+1].is("(") {
				if cl := p.matchClose(k+1, closeIdx); cl > 0 {
					at = p.toks[cl].end
					if p.toks[cl+1].is(";") {
						at = p.toks[cl+1].end
					} else {
						p.ins(at, ";")
					}
				}
				break
			}
		}
	}
	p.ins(at, b.String())
}

// scanCode scans the JavaScript tokens [from, to) for the TypeScript
// annotations that can occur in code, records the edits removing them and
// returns them.
func (p *parser) scanCode(from, to int) []*Annotation {
	saved := p.i
	defer func() { p.i = saved }()
	var anns []*Annotation
	for i := from; i < to; i++ {
		t := p.toks[i]
		var prev token
		hasPrev := i > from
		if hasPrev {
			prev = p.toks[i-1]
		}
		afterDot := hasPrev && (prev.is(".") || prev.is("?."))
		switch {
		case t.kind == tIdent && (t.text == "const" || t.text == "let" || t.text == "var") && !afterDot:
			nameIdx := i + 1
			nt := p.at(nameIdx)
			name := nt.text
			if nt.is("{") || nt.is("[") {
				m := p.matchClose(nameIdx, to)
				if m < 0 {
					continue
				}
				name = p.src[nt.pos:p.toks[m].end]
				nameIdx = m
			} else if nt.kind != tIdent {
				continue
			}
			k := nameIdx + 1
			if p.at(k).is("!") {
				k++
			}
			if !p.at(k).is(":") {
				continue
			}
			p.i = k + 1
			var ty Type
			if !p.try(func() { ty = p.parseType() }) {
				continue
			}
			nx := p.peek()
			if !(nx.is("=") || nx.is(";") || nx.is(",") || nx.is(")") || nx.is("}") || nx.isIdent("of") || nx.isIdent("in") || nx.nl || nx.kind == tEOF) {
				continue
			}
			p.del(p.at(nameIdx).end, p.prevEnd())
			anns = append(anns, &Annotation{Kind: "var", Name: name, Type: ty, Line: p.line(nt)})
			i = p.i - 1
		case t.isIdent("catch") && !afterDot && p.at(i+1).is("(") && p.at(i+2).kind == tIdent && p.at(i+3).is(":"):
			p.i = i + 4
			var ty Type
			if !p.try(func() { ty = p.parseType() }) || !p.peek().is(")") {
				continue
			}
			p.del(p.at(i+2).end, p.prevEnd())
			anns = append(anns, &Annotation{Kind: "catch", Name: p.at(i + 2).text, Type: ty, Line: p.line(t)})
			i = p.i - 1
		case (t.isIdent("as") || t.isIdent("satisfies")) && hasPrev && !t.nl && isExprEnd(prev) && !afterDot:
			p.i = i + 1
			var ty Type
			if p.peek().isIdent("const") && t.text == "as" {
				p.next()
			} else if !p.try(func() { ty = p.parseType() }) {
				continue
			}
			nx := p.peek()
			ok := nx.kind == tEOF || nx.nl || nx.isIdent("as") || nx.isIdent("satisfies") || nx.isIdent("in") || nx.isIdent("instanceof")
			if nx.kind == tPunct {
				switch nx.text {
				case "(", "{", "[", ".", "=>", "!", "~", "?.", "...", "@":
				default:
					ok = true
				}
			}
			if !ok || p.i > to {
				continue
			}
			p.del(prev.end, p.prevEnd())
			anns = append(anns, &Annotation{Kind: t.text, Type: ty, Line: p.line(t)})
			i = p.i - 1
		case t.isIdent("function") && !afterDot:
			p.i = i + 1
			p.accept("*")
			if n := p.peek(); n.kind == tIdent && (p.peekAt(1).is("(") || p.peekAt(1).is("<")) {
				p.next()
			}
			var sig *FuncType
			ok := p.try(func() {
				sig = p.codeSignature()
				if !p.peek().is("{") {
					p.fail(p.peek(), "no body")
				}
			})
			if !ok {
				continue
			}
			anns = append(anns, sigAnnotations(sig, p.line(t))...)
			i = p.i - 1
		case t.is("(") && (!hasPrev || !isExprEnd(prev) || prev.isIdent("async")) && !afterDot:
			p.i = i
			var sig *FuncType
			ok := p.try(func() {
				sig = p.codeSignature()
				if !p.peek().is("=>") {
					p.fail(p.peek(), "not an arrow function")
				}
			})
			if !ok {
				continue
			}
			anns = append(anns, sigAnnotations(sig, p.line(t))...)
			i = p.i - 1
		case t.isIdent("new") && !afterDot && p.at(i+1).kind == tIdent:
			p.i = i + 1
			p.parseQualifiedName()
			if !p.peek().is("<") {
				continue
			}
			fromPos := p.peek().pos
			var args []Type
			ok := p.try(func() {
				args = p.parseTypeArgs()
				if !p.peek().is("(") {
					p.fail(p.peek(), "not type arguments")
				}
			})
			if !ok {
				continue
			}
			p.del(fromPos, p.prevEnd())
			for _, a := range args {
				anns = append(anns, &Annotation{Kind: "typeargs", Type: a, Line: p.line(t)})
			}
			i = p.i - 1
		}
	}
	return anns
}

// codeSignature parses `[<T>](params)[: R]` in code and records the edits
// removing the type level parts.
func (p *parser) codeSignature() *FuncType {
	ft := &FuncType{}
	if p.peek().is("<") {
		from := p.peek().pos
		ft.TypeParams = p.parseTypeParams()
		p.del(from, p.prevEnd())
	}
	ft.Params = p.parseParams()
	if p.peek().is(":") {
		from := p.next().pos
		ft.Return = p.parseReturnType()
		p.del(from, p.prevEnd())
	}
	return ft
}

func sigAnnotations(sig *FuncType, line int) []*Annotation {
	var out []*Annotation
	for _, pa := range sig.Params {
		if pa.Type != nil {
			out = append(out, &Annotation{Kind: "param", Name: pa.Name, Type: pa.Type, Line: line})
		}
	}
	if sig.Return != nil {
		out = append(out, &Annotation{Kind: "return", Type: sig.Return, Line: line})
	}
	return out
}
