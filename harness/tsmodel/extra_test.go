package tsmodel

import (
	"reflect"
	"strings"
	"testing"
)

func TestGenericSubstitution(t *testing.T) {
	env := mustEnv(t, `
type All<T> = {
	u: T | null, i: T & { __b: 1 } , a: T[], t: [T, T?, ...T[]], k: keyof T, x: T["p"], o: { n: T, [k: string]: T | string },
	m: { [K in "q"]: T }, r: Record<string, T>, shadow: <T>(a: T) => T,
}
interface P { p: string }
type Fn<T> = (a: T) => T
`)
	ty, _ := ParseType("All<P>")
	rt, err := env.Resolve(ty)
	if err != nil {
		t.Fatal(err)
	}
	want := `{ u: P | null; i: P & { __b: 1 }; a: P[]; t: [P, P?, ...P[]]; k: keyof P; x: P["p"]; o: { n: P; [k: string]: P | string }; m: { [K in "q"]: P }; r: Record<string, P>; shadow: <T>(a: T) => T }`
	if rt.String() != want {
		t.Errorf("got  %s\nwant %s", rt, want)
	}
	runInhabitCases(t, env, []inhabitCase{
		{`All<P>["k"]`, `"p"`, "", ""}, {`All<P>["x"]`, `"s"`, "", ""}, {`All<P>["x"]`, `1`, "$", "expected a string"},
		{`All<P>["m"]`, `{"q":{"p":"s"}}`, "", ""}, {`All<P>["m"]`, `{"q":{"p":1}}`, "$.q.p", "expected a string"},
		{`All<P>["t"]`, `[{"p":"a"}]`, "", ""}, {`All<P>["o"]`, `{"n":{"p":"a"},"z":"s"}`, "", ""},
		{"Fn<string>", `1`, "$", "function types"},
	})
}

func TestKeyOfForms(t *testing.T) {
	env := mustEnv(t, "interface A { a: string }\ninterface B { b: number; [k: number]: string }")
	tests := []struct{ typ, want string }{
		{"keyof A", `"a"`}, {"keyof B", `"b" | number`}, {"keyof (A & B)", `"a" | "b" | number`}, {"keyof {}", "never"},
		{"keyof Record<\"x\" | \"y\", A>", `"x" | "y"`}, {"keyof A[]", "number"}, {"keyof [A, B]", "number"}, {"keyof any", "string | number"},
		{"keyof unknown", "never"}, {"keyof { [K in \"m\"]: A }", `"m"`}, {`A["a"] | B["b"] | A["a"]`, `string | number`},
	}
	for _, tc := range tests {
		ty, err := ParseType(tc.typ)
		if err != nil {
			t.Fatal(err)
		}
		var parts []string
		alts := []Type{ty}
		if u, ok := ty.(*Union); ok {
			alts = u.Alts
		}
		var rs []Type
		for _, a := range alts {
			r, err := env.Resolve(a)
			if err != nil {
				t.Errorf("Resolve(%s): %v", a, err)
				continue
			}
			rs = append(rs, r)
		}
		parts = append(parts, unionOf(rs).String())
		if got := strings.Join(parts, ""); got != tc.want {
			t.Errorf("%s = %s, want %s", tc.typ, got, tc.want)
		}
	}
}

func TestJSQuoteAndStrings(t *testing.T) {
	in := "a\"b\\c\nd\re\tf\x01g\u2028h\u2029i\x7fé😀"
	q := jsQuote(in)
	if want := `"a\"b\\c\nd\re\tf\u0001g\u2028h\u2029i\u007fé😀"`; q != want {
		t.Errorf("jsQuote = %s, want %s", q, want)
	}
	// the quoted form lexes back to the same value
	toks, err := lex(q, newLineIndex(q))
	if err != nil || toks[0].val != in {
		t.Errorf("round trip: %v %q", err, toks[0].val)
	}
	ty, _ := ParseType(`{ "a b": 'it\'s', c: "é" }`)
	if got := ty.String(); got != `{ "a b": "it's"; c: "é" }` {
		t.Errorf("got %s", got)
	}
	if (&Mismatch{Path: "$", Expected: "a", Got: "b", Reason: "c"}).Error() != "$: expected a, got b: c" {
		t.Errorf("Mismatch.Error")
	}
	if tEOF.String() == "" || tIdent.String() == "" || tPunct.String() == "" {
		t.Errorf("tokKind.String")
	}
}

func TestExportForms(t *testing.T) {
	f := mustParse(t, `
export * from "a";
export * as ns from "b";
export { x, y as z } from "c";
export type { T1, T2 as T3 };
export default interface D { a: string }
export default abstract class K { }
type P = (x: unknown) => asserts x is string
type Q = (x: unknown) => asserts x
type U = unique symbol
`)
	want := [][]string{nil, {"ns"}, {"x", "z"}, {"T1", "T3"}}
	if !reflect.DeepEqual(f.ExportLists, want) {
		t.Errorf("ExportLists = %v", f.ExportLists)
	}
	if f.Class == nil || !f.Class.Default || !f.Class.Abstract || f.Class.Name != "K" {
		t.Errorf("class %+v", f.Class)
	}
	if f.Decls[1].Type.String() != "(x: unknown) => void" || f.Decls[3].Type.String() != "symbol" {
		t.Errorf("decls %v %v", f.Decls[1].Type, f.Decls[3].Type)
	}
	r := mustStrip(t, "export * from \"a\";\nexport { x };\nexport default class {}\nexport default function f(a: A) {}")
	if r.JS != "\n\nclass {}\nfunction f(a) {}" {
		t.Errorf("JS = %q", r.JS)
	}
}
