package tsmodel

import (
	"strings"
	"testing"
)

func lexAll(t *testing.T, src string) ([]token, error) {
	t.Helper()
	return lex(src, newLineIndex(src))
}

func TestLexTokens(t *testing.T) {
	tests := []struct {
		src  string
		want string // kinds:texts joined by space
	}{
		{"export type A = B;", "i:export i:type i:A p:= i:B p:;"},
		{"Record<string,Array<Int>>", "i:Record p:< i:string p:, i:Array p:< i:Int p:> p:>"},
		{"a >>= b", "i:a p:> p:> p:= i:b"},
		{"x => y", "i:x p:=> i:y"},
		{"a?.b ?? c?.5:1", "i:a p:?. i:b p:?? i:c p:? n:.5 p:: n:1"},
		{"...rest", "p:... i:rest"},
		{"// c\n/* d\n */ a /**/ b", "i:a i:b"},
		{`"a" 'b'`, `s:"a" s:'b'`},
		{"`t ${ `n ${x}` + {a:1}.a } u` z", "t:`t ${ `n ${x}` + {a:1}.a } u` i:z"},
		{"a / b / c", "i:a p:/ i:b p:/ i:c"},
		{"x = /ab[/]c/g.test(s)", "i:x p:= r:/ab[/]c/g p:. i:test p:( i:s p:)"},
		{"return /x/", "i:return r:/x/"},
		{"(a) / 2", "p:( i:a p:) p:/ n:2"},
		{"-1 1.5 1e+06 1.5e-07 0x1F 1_000 10n", "p:- n:1 n:1.5 n:1e+06 n:1.5e-07 n:0x1F n:1_000 n:10n"},
		{"$a _b #priv été", "i:$a i:_b i:#priv i:été"},
		{"@dec", "p:@ i:dec"},
		{"\ufeffa", "i:a"},
	}
	for _, tc := range tests {
		toks, err := lexAll(t, tc.src)
		if err != nil {
			t.Errorf("lex(%q): unexpected error %v", tc.src, err)
			continue
		}
		var parts []string
		for _, tk := range toks {
			if tk.kind == tEOF {
				break
			}
			parts = append(parts, string("?instrp"[tk.kind])+":"+tk.text)
		}
		if got := strings.Join(parts, " "); got != tc.want {
			t.Errorf("lex(%q)\n got %s\nwant %s", tc.src, got, tc.want)
		}
	}
}

func TestLexNewlineFlag(t *testing.T) {
	toks, err := lexAll(t, "a b\nc /* x\n */ d // e\n f")
	if err != nil {
		t.Fatal(err)
	}
	want := []bool{false, false, true, true, true}
	for i, w := range want {
		if toks[i].nl != w {
			t.Errorf("token %d %q: nl = %v, want %v", i, toks[i].text, toks[i].nl, w)
		}
	}
	if toks[len(toks)-1].kind != tEOF {
		t.Errorf("last token is not EOF")
	}
}

func TestLexStringValues(t *testing.T) {
	tests := []struct{ src, want string }{
		{`"abc"`, "abc"},
		{`'it''s'`, "it"},
		{`"a\nb\tc\\d\"e\'f"`, "a\nb\tc\\d\"e'f"},
		{`"\r\b\f\v\0"`, "\r\b\f\v\x00"},
		{`"\x41\u0042\u{43}\u{1F600}"`, "ABC\U0001F600"},
		{`"\uD83D\uDE00"`, "\U0001F600"}, // surrogate pair
		{`'\/'`, "/"},
		{"\"a\\\nb\"", "ab"}, // line continuation
		{`"é€😀"`, "é€😀"},
		{`'"'`, `"`},
	}
	for _, tc := range tests {
		toks, err := lexAll(t, tc.src)
		if err != nil {
			t.Errorf("lex(%s): %v", tc.src, err)
			continue
		}
		if toks[0].kind != tStr || toks[0].val != tc.want {
			t.Errorf("lex(%s) = %q, want %q", tc.src, toks[0].val, tc.want)
		}
	}
}

func TestLexNumberValues(t *testing.T) {
	tests := []struct{ src, want string }{
		{"0", "0"}, {"42", "42"}, {"1.5", "1.5"}, {"1e+06", "1e+06"}, {"1.5e-07", "1.5e-07"}, {"1E3", "1e3"},
		{".5", "0.5"}, {"5.", "5"}, {"0x1F", "31"}, {"0b101", "5"}, {"0o17", "15"}, {"1_000_000", "1000000"}, {"0.0", "0.0"},
	}
	for _, tc := range tests {
		toks, err := lexAll(t, tc.src)
		if err != nil {
			t.Errorf("lex(%s): %v", tc.src, err)
			continue
		}
		if toks[0].kind != tNum || toks[0].val != tc.want || toks[0].text != tc.src {
			t.Errorf("lex(%s) = %q (text %q), want %q", tc.src, toks[0].val, toks[0].text, tc.want)
		}
	}
}

func TestLexErrors(t *testing.T) {
	tests := []struct {
		src, msg  string
		line, col int
	}{
		{`"abc`, "unterminated string", 1, 1},
		{"\n  \"abc\ndef\"", "unterminated string", 2, 3},
		{"/* never closed", "unterminated block comment", 1, 1},
		{"`abc ${x", "unterminated template", 1, 1},
		{`"\U0001F600"`, "invalid escape sequence", 1, 2}, // Go %q of a non printable / wide rune
		{`"\a"`, "invalid escape sequence", 1, 2},         // Go %q bell
		{`'\q'`, "invalid escape sequence", 1, 2},
		{`"\x4"`, "invalid escape sequence", 1, 2},
		{`"\xZZ"`, "invalid escape sequence", 1, 2},
		{`"\u12"`, "invalid escape sequence", 1, 2},
		{`"\u{110000}"`, "invalid escape sequence", 1, 2},
		{`"\u{}"`, "invalid escape sequence", 1, 2},
		{`"\1"`, "invalid escape sequence", 1, 2},
		{`"\01"`, "octal", 1, 2},
		{"`\\a`", "invalid escape sequence", 1, 2},
		{"a \\ b", "unexpected character", 1, 3},
		{"012", "leading zero", 1, 1},
		{"1__0", "numeric separator", 1, 3},
		{"1_", "numeric separator", 1, 2},
		{"1e", "exponent", 1, 1},
		{"0x", "malformed number", 1, 1},
		{"1abc", "identifier or keyword cannot immediately follow", 1, 2},
		{"1.5n", "bigint", 1, 1},
		{"x = /abc", "unterminated regular expression", 1, 5},
		{"a\xffb", "invalid UTF-8", 1, 2},
	}
	for _, tc := range tests {
		_, err := lexAll(t, tc.src)
		se, ok := err.(*SyntaxError)
		if !ok {
			t.Errorf("lex(%q): want *SyntaxError containing %q, got %v", tc.src, tc.msg, err)
			continue
		}
		if !strings.Contains(se.Msg, tc.msg) || se.Line != tc.line || se.Col != tc.col {
			t.Errorf("lex(%q): got %d:%d %q, want %d:%d containing %q", tc.src, se.Line, se.Col, se.Msg, tc.line, tc.col, tc.msg)
		}
		if se.Error() == "" || se.Pos < 0 {
			t.Errorf("lex(%q): bad error rendering", tc.src)
		}
	}
}
