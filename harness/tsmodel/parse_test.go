package tsmodel

import (
	"reflect"
	"strings"
	"testing"
)

func mustParse(t *testing.T, src string) *File {
	t.Helper()
	f, err := Parse(src)
	if err != nil {
		t.Fatalf("Parse: %v\nsource:\n%s", err, src)
	}
	return f
}

func TestParseTypeStrings(t *testing.T) {
	tests := []struct{ src, want string }{
		{"string", "string"},
		{"( Int[] | null)", "Int[] | null"},
		{"(Record<Int,X> | null)", "Record<Int, X> | null"},
		{"(Int | null)[]", "(Int | null)[]"},
		{"Int[][]", "Int[][]"},
		{"[boolean,boolean,]", "[boolean, boolean]"},
		{"[]", "[]"},
		{"[Int]", "[Int]"},
		{"[a: Int, b?: string, ...rest: X[]]", "[Int, string?, ...X[]]"},
		{"[Int, string?]", "[Int, string?]"},
		{"number & { __opaque__: 'Int' }", `number & { __opaque__: "Int" }`},
		{"| A\n| B", "A | B"},
		{"\n\t| { Kind : \"A\", Data: A}\n| { Kind : \"B\", Data: B}", `{ Kind: "A"; Data: A } | { Kind: "B"; Data: B }`},
		{"A | B & C", "A | B & C"},
		{"(A | B) & C", "(A | B) & C"},
		{"& A & B", "A & B"},
		{"(typeof X)[keyof typeof X]", "(typeof X)[keyof typeof X]"},
		{"typeof X[keyof typeof X]", "(typeof X)[keyof typeof X]"},
		{"typeof X.Y", "typeof X.Y"},
		{"keyof T[]", "keyof T[]"},
		{"(keyof T)[]", "(keyof T)[]"},
		{"T[K]", "T[K]"},
		{`T["a" | "b"]`, `T["a" | "b"]`},
		{"Record<string, never>", "Record<string, never>"},
		{"Array<Array<Int>>", "Array<Array<Int>>"},
		{"Promise<AxiosResponse<T>>", "Promise<AxiosResponse<T>>"},
		{"A.B.C<D>", "A.B.C<D>"},
		{`"a" | 'b' | 1 | -1 | 1.5 | 1e+06 | true | false | null`, `"a" | "b" | 1 | -1 | 1.5 | 1e+06 | true | false | null`},
		{"{}", "{}"},
		{"{a: string}", "{ a: string }"},
		{"{a: string, b: number}", "{ a: string; b: number }"},
		{"{a: string; b: number;}", "{ a: string; b: number }"},
		{"{a: string\n b: number\n}", "{ a: string; b: number }"},
		{"{\n\ta: string,\nb: number,\n\t}", "{ a: string; b: number }"},
		{`{"id-1": Int, "b": boolean}`, `{ "id-1": Int; "b": boolean }`},
		{"{readonly a?: string}", "{ readonly a?: string }"},
		{"{ type: string, readonly: number, default: boolean }", "{ type: string; readonly: number; default: boolean }"},
		{"{ 1: string, 1.0e1: number }", `{ "1": string; "10": number }`},
		{"{ [k: string]: Int }", "{ [k: string]: Int }"},
		{"{ a: Int; [k: string]: Int }", "{ a: Int; [k: string]: Int }"},
		{"{ [K in Keys]?: V }", "{ [K in Keys]?: V }"},
		{"{ readonly [K in keyof T]: T[K] }", "{ readonly [K in keyof T]: T[K] }"},
		{"{ (x: number): string }", "{ (x: number): string }"},
		{"{ new (x?: number): Foo; m<T>(a: T): void }", "{ new (x?: number): Foo; m<T>(a: T): void }"},
		{"() => void", "() => void"},
		{"(a: A, b?: B, ...c: C[]) => R", "(a: A, b?: B, ...c: C[]) => R"},
		{"(x) => void", "(x) => void"},
		{"<T>(x: T) => T", "<T>(x: T) => T"},
		{"new (m?: string) => Cancel", "new (m?: string) => Cancel"},
		{"(() => void) | null", "(() => void) | null"},
		{"((a: A) => void)[]", "((a: A) => void)[]"},
		{"(status: number) => boolean | null", "(status: number) => boolean | null"},
		{"({a, b}: P) => void", "({a, b}: P) => void"},
		{"readonly string[]", "string[]"},
		{"(x: unknown) => x is string", "(x: unknown) => boolean"},
		{"/* c */ A /* d */ | // e\n B", "A | B"},
	}
	for _, tc := range tests {
		ty, err := ParseType(tc.src)
		if err != nil {
			t.Errorf("ParseType(%q): %v", tc.src, err)
			continue
		}
		if got := ty.String(); got != tc.want {
			t.Errorf("ParseType(%q).String() = %q, want %q", tc.src, got, tc.want)
			continue
		}
		// printing is stable: parsing the printed form gives the same print
		again, err := ParseType(tc.want)
		if err != nil {
			t.Errorf("ParseType(%q) (printed form): %v", tc.want, err)
		} else if again.String() != tc.want {
			t.Errorf("print/parse of %q not stable: %q", tc.want, again.String())
		}
	}
}

func TestParseTypeShape(t *testing.T) {
	ty, err := ParseType("( Int[] | null)")
	if err != nil {
		t.Fatal(err)
	}
	want := &Union{Alts: []Type{&ArrayOf{Elem: &Ref{Name: "Int"}}, &Ref{Name: "null"}}}
	if !reflect.DeepEqual(ty, want) {
		t.Errorf("got %#v", ty)
	}
	ty, _ = ParseType("(typeof E)[keyof typeof E]")
	want2 := &Indexed{Obj: &TypeOf{Name: "E"}, Index: &KeyOf{T: &TypeOf{Name: "E"}}}
	if !reflect.DeepEqual(ty, want2) {
		t.Errorf("got %#v", ty)
	}
	ty, _ = ParseType(`{ Kind : "A", "Da-ta"?: -1.5 }`)
	want3 := &ObjectType{Members: []*Member{
		{Kind: "property", Key: "Kind", Type: &Literal{Kind: "string", Str: "A"}, Line: 1},
		{Kind: "property", Key: "Da-ta", Quoted: true, Optional: true, Type: &Literal{Kind: "number", Num: "-1.5"}, Line: 1},
	}}
	if !reflect.DeepEqual(ty, want3) {
		t.Errorf("got %s", ty)
	}
	ty, _ = ParseType("number & { __opaque__: 'Int' }")
	if in, ok := ty.(*Intersection); !ok || len(in.Parts) != 2 {
		t.Errorf("got %#v", ty)
	}
}

func TestParseTypeErrors(t *testing.T) {
	tests := []struct{ src, msg string }{
		{"", "expected a type"},
		{"(A", `expected ")"`},
		{"A)", "unexpected"},
		{"A[", "expected a type"},
		{"[A, B", `expected "]"`},
		{"[A,,B]", "empty tuple element"},
		{"[,]", "empty tuple element"},
		{"{a: string", "not closed"},
		{"{a: string}}", "unexpected"},
		{"{a}", "no type annotation"},
		{"{a?}", "no type annotation"},
		{"{a:}", "expected a type"},
		{"{a: string b: number}", "between object type members"},
		{"{a: string,, b: number}", "empty member"},
		{"{,}", "empty member"},
		{"{;}", "empty member"},
		{"{: string}", "expected a property name"},
		{"{[a]: string}", "computed property"},
		{"A | | B", "empty union alternative"},
		{"A |", "empty union alternative"},
		{"| | A", "empty union alternative"},
		{"A & & B", "empty intersection member"},
		{"A &", "empty intersection member"},
		{"A B", "unexpected"},
		{"A = B", "unexpected"},
		{"Record<>", "cannot be empty"},
		{"Record<A,", "expected a type"},
		{"Record<A B>", `expected ">"`},
		{"Record<A", `expected ">"`},
		{"typeof", "after typeof"},
		{"typeof 1", "after typeof"},
		{"keyof", "expected a type"},
		{"+1", "expected a type"},
		{"- 1n", "expected a type"},
		{"10n", "bigint"},
		{"const", "expected a type"},
		{"class", "expected a type"},
		{"(a: A) =>", "expected a type"},
		{"(a: A) void", `expected "=>"`},
		{"A extends B ? C : D", "conditional types"},
		{"`a${string}`", "template literal types"},
		{"A\n[0]", "unexpected"}, // `[` on a new line does not continue the type
		{"()", `expected "=>"`},
		{"{ [k: string]: A; [j: string]: B }", "duplicate index signature"},
	}
	for _, tc := range tests {
		ty, err := ParseType(tc.src)
		se, ok := err.(*SyntaxError)
		if !ok {
			t.Errorf("ParseType(%q) = %v, %v; want *SyntaxError containing %q", tc.src, ty, err, tc.msg)
			continue
		}
		if !strings.Contains(se.Msg, tc.msg) {
			t.Errorf("ParseType(%q): error %q does not contain %q", tc.src, se.Msg, tc.msg)
		}
	}
}

func TestParseDeclarations(t *testing.T) {
	src := `// header
export type Int = number & { __opaque__: 'Int' };
type Local = Int
export interface S {
	a: Int,
	"b-c"?: string;
	d: ( S[] | null)
}
interface Empty {}
export const E = {
	A : 0,
B : -1,
	"C d": 1.5,
	D: "x",
	T: true,
	2: 1e+06,
	O: { nested: [1, 2] },
	F: foo(1, "a,b}"),
} as const;
export type E = (typeof E)[keyof typeof E];
export const ELabels: Record<E, string> = {
	[E.A]: "la",
[E.B]: 'lb',
	["lit"]: "lc"
};
const N = 5
const M = -2.5 as const;
export const Str = 'it\'s';
const Other = compute(1, 2) as Foo;
declare const Axios: AxiosStatic;
export default Axios;
export { Int as MyInt, S };
export interface G<T = any, U extends object = {}> extends S, Empty { data: T; u: U }
export type Box<T> = { v: T };
`
	f := mustParse(t, src)
	type row struct {
		kind, name string
		exported   bool
		line       int
	}
	var got []row
	for _, d := range f.Decls {
		got = append(got, row{d.Kind, d.Name, d.Exported, d.Line})
	}
	want := []row{
		{"type", "Int", true, 2}, {"type", "Local", false, 3}, {"interface", "S", true, 4}, {"interface", "Empty", false, 9},
		{"const", "E", true, 10}, {"type", "E", true, 20}, {"const", "ELabels", true, 21}, {"const", "N", false, 26},
		{"const", "M", false, 27}, {"const", "Str", true, 28}, {"const", "Other", false, 29}, {"const", "Axios", false, 30},
		{"interface", "G", true, 33}, {"type", "Box", true, 34},
	}
	if !reflect.DeepEqual(got, want) {
		t.Fatalf("decls:\n got %v\nwant %v", got, want)
	}
	byName := map[string]*Decl{}
	for _, d := range f.Decls {
		if d.Kind == "const" || byName[d.Name] == nil {
			if d.Kind == "const" {
				byName["const "+d.Name] = d
			} else {
				byName[d.Name] = d
			}
		}
	}
	if s := byName["S"].Type.String(); s != `{ a: Int; "b-c"?: string; d: S[] | null }` {
		t.Errorf("S = %s", s)
	}
	e := byName["const E"]
	if !e.AsConst || e.Value == nil || e.Type != nil {
		t.Fatalf("const E: %+v", e)
	}
	wantProps := []Prop{
		{Key: "A", Value: LitValue{Kind: "number", Num: "0", Raw: "0"}, Line: 11},
		{Key: "B", Value: LitValue{Kind: "number", Num: "-1", Raw: "-1"}, Line: 12},
		{Key: "C d", Quoted: true, Value: LitValue{Kind: "number", Num: "1.5", Raw: "1.5"}, Line: 13},
		{Key: "D", Value: LitValue{Kind: "string", Str: "x", Raw: `"x"`}, Line: 14},
		{Key: "T", Value: LitValue{Kind: "boolean", Bool: true, Raw: "true"}, Line: 15},
		{Key: "2", Value: LitValue{Kind: "number", Num: "1e+06", Raw: "1e+06"}, Line: 16},
		{Key: "O", Value: LitValue{Kind: "other", Raw: "{ nested: [1, 2] }"}, Line: 17},
		{Key: "F", Value: LitValue{Kind: "other", Raw: `foo(1, "a,b}")`}, Line: 18},
	}
	if len(e.Value.Props) != len(wantProps) {
		t.Fatalf("const E has %d props", len(e.Value.Props))
	}
	for i, w := range wantProps {
		if !reflect.DeepEqual(*e.Value.Props[i], w) {
			t.Errorf("E prop %d = %+v, want %+v", i, *e.Value.Props[i], w)
		}
	}
	l := byName["const ELabels"]
	if l.AsConst || l.Type == nil || l.Type.String() != "Record<E, string>" {
		t.Errorf("ELabels: %+v", l)
	}
	wantL := []Prop{
		{Key: "E.A", Computed: true, ComputedObj: "E", ComputedMember: "A", Value: LitValue{Kind: "string", Str: "la", Raw: `"la"`}, Line: 22},
		{Key: "E.B", Computed: true, ComputedObj: "E", ComputedMember: "B", Value: LitValue{Kind: "string", Str: "lb", Raw: `'lb'`}, Line: 23},
		{Key: `"lit"`, Computed: true, Value: LitValue{Kind: "string", Str: "lc", Raw: `"lc"`}, Line: 24},
	}
	for i, w := range wantL {
		if !reflect.DeepEqual(*l.Value.Props[i], w) {
			t.Errorf("ELabels prop %d = %+v, want %+v", i, *l.Value.Props[i], w)
		}
	}
	if d := byName["const N"]; d.Init == nil || d.Init.Kind != "number" || d.Init.Num != "5" || d.AsConst {
		t.Errorf("N: %+v", d.Init)
	}
	if d := byName["const M"]; d.Init == nil || d.Init.Num != "-2.5" || !d.AsConst {
		t.Errorf("M: %+v %v", d.Init, d.AsConst)
	}
	if d := byName["const Str"]; d.Init == nil || d.Init.Str != "it's" {
		t.Errorf("Str: %+v", d.Init)
	}
	if d := byName["const Other"]; d.Init == nil || d.Init.Kind != "other" || d.Init.Raw != "compute(1, 2)" || d.CastType.String() != "Foo" {
		t.Errorf("Other: %+v %v", d.Init, d.CastType)
	}
	if d := byName["const Axios"]; !d.Declare || d.Type.String() != "AxiosStatic" {
		t.Errorf("Axios: %+v", d)
	}
	if f.DefaultExport != "Axios" {
		t.Errorf("DefaultExport = %q", f.DefaultExport)
	}
	if !reflect.DeepEqual(f.ExportLists, [][]string{{"MyInt", "S"}}) {
		t.Errorf("ExportLists = %v", f.ExportLists)
	}
	g := byName["G"]
	if typeParamsString(g.TypeParams) != "<T = any, U extends object = {}>" || len(g.Extends) != 2 || g.Extends[0].String() != "S" {
		t.Errorf("G: %s %v", typeParamsString(g.TypeParams), g.Extends)
	}
	if f.Class != nil || len(f.Classes) != 0 {
		t.Errorf("unexpected class")
	}
	if f.Source() != src {
		t.Errorf("Source() differs")
	}
}

func TestParseImports(t *testing.T) {
	f := mustParse(t, `
import type { AxiosResponse } from "axios";
import Axios from "axios";
import * as NS from 'ns'
import Def, { a, b as c, type D } from "m";
import "side-effect";
import type from "weird";
import type T2 from "t2";
`)
	want := []*Import{
		{TypeOnly: true, Named: []ImportName{{Name: "AxiosResponse", Alias: "AxiosResponse"}}, Module: "axios", Line: 2},
		{Default: "Axios", Module: "axios", Line: 3},
		{Namespace: "NS", Module: "ns", Line: 4},
		{Default: "Def", Named: []ImportName{{Name: "a", Alias: "a"}, {Name: "b", Alias: "c"}, {Name: "D", Alias: "D", TypeOnly: true}}, Module: "m", Line: 5},
		{Module: "side-effect", Line: 6},
		{Default: "type", Module: "weird", Line: 7},
		{TypeOnly: true, Default: "T2", Module: "t2", Line: 8},
	}
	if !reflect.DeepEqual(f.Imports, want) {
		for i := range f.Imports {
			t.Errorf("import %d: %+v", i, *f.Imports[i])
		}
	}
}

func TestParseClass(t *testing.T) {
	src := `
export abstract class AbstractAPI {
	constructor(protected baseUrl: string, protected readonly authToken: string, plain?: number) {}

	abstract protected handleError(error: any): void

	abstract protected startRequest(): void

	private counter: number = 0;
	static readonly VERSION = "1";
	opt?: string

	getHeaders() {
		return { Authorization: "Bearer " + this.authToken }
	}

	/** doc */
	async M1(params: {"id-1": Int, "b": boolean}, file: File) {
		const fullUrl = this.baseUrl + "/a}{";
		try {
			const rep:AxiosResponse<( Int[] | null)> =  await Axios.post(fullUrl, params, { headers: this.getHeaders() });
			let x: Foo;
			const y = rep.data as Bar;
			return rep.data;
		} catch (error: unknown) {
			this.handleError(error);
		}
	}
	protected static async *gen<T extends Int>(a: T, ...rest: T[]): AsyncGenerator<T> { yield a }
	get size(): number { return 1 }
	set size(v: number) { }
	"quoted-name"(): void {}
}
class Second extends AbstractAPI implements I, J<K> { }
`
	f := mustParse(t, src)
	if len(f.Classes) != 2 || f.Class != f.Classes[0] {
		t.Fatalf("classes: %d", len(f.Classes))
	}
	c := f.Class
	if c.Name != "AbstractAPI" || !c.Abstract || !c.Exported || c.Line != 2 || c.Extends != "" {
		t.Errorf("class header: %+v", c)
	}
	if !strings.HasPrefix(c.RawBody, "{\n\tconstructor") || !strings.HasSuffix(c.RawBody, "(): void {}\n}") {
		t.Errorf("RawBody = %q", c.RawBody)
	}
	var ps []string
	for _, p := range c.CtorParams {
		ps = append(ps, p.String())
	}
	if got := strings.Join(ps, "; "); got != "protected baseUrl: string; protected readonly authToken: string; plain?: number" {
		t.Errorf("ctor params = %s", got)
	}
	if c.Ctor == nil || c.Ctor.Body != "{}" || c.Ctor.Name != "constructor" {
		t.Errorf("ctor = %+v", c.Ctor)
	}
	type mrow struct {
		name            string
		async, abstract bool
		mods, params    string
		ret             string
		line            int
		hasBody         bool
	}
	var got []mrow
	for _, m := range c.Methods {
		var ps []string
		for _, p := range m.Params {
			ps = append(ps, p.String())
		}
		ret := ""
		if m.Return != nil {
			ret = m.Return.String()
		}
		got = append(got, mrow{m.Name, m.Async, m.Abstract, strings.Join(m.Modifiers, " "), strings.Join(ps, ", "), ret, m.Line, m.Body != ""})
	}
	want := []mrow{
		{"handleError", false, true, "abstract protected", "error: any", "void", 5, false},
		{"startRequest", false, true, "abstract protected", "", "void", 7, false},
		{"getHeaders", false, false, "", "", "", 13, true},
		{"M1", true, false, "async", `params: { "id-1": Int; "b": boolean }, file: File`, "", 18, true},
		{"gen", true, false, "protected static async", "a: T, ...rest: T[]", "AsyncGenerator<T>", 29, true},
		{"size", false, false, "", "", "number", 30, true},
		{"size", false, false, "", "v: number", "", 31, true},
		{"quoted-name", false, false, "", "", "void", 32, true},
	}
	if !reflect.DeepEqual(got, want) {
		for i := range got {
			t.Errorf("method %d: %+v", i, got[i])
		}
	}
	m1 := c.Methods[3]
	if !strings.HasPrefix(m1.Body, "{\n\t\tconst fullUrl") || !strings.HasSuffix(m1.Body, "\t\t}\n\t}") {
		t.Errorf("M1 body = %q", m1.Body)
	}
	var anns []string
	for _, a := range m1.BodyAnnotations {
		ty := "<nil>"
		if a.Type != nil {
			ty = a.Type.String()
		}
		anns = append(anns, a.Kind+" "+a.Name+" "+ty)
	}
	wantAnns := []string{"var rep AxiosResponse<Int[] | null>", "var x Foo", "as  Bar", "catch error unknown"}
	if !reflect.DeepEqual(anns, wantAnns) {
		t.Errorf("annotations = %q", anns)
	}
	if g := c.Methods[4]; !g.Static || !g.Generator || typeParamsString(g.TypeParams) != "<T extends Int>" {
		t.Errorf("gen: %+v", g)
	}
	if c.Methods[5].Accessor != "get" || c.Methods[6].Accessor != "set" {
		t.Errorf("accessors")
	}
	var props []string
	for _, p := range c.Props {
		ty := ""
		if p.Type != nil {
			ty = p.Type.String()
		}
		props = append(props, strings.Join(p.Modifiers, " ")+"|"+p.Name+"|"+ty+"|"+p.Init)
	}
	if want := []string{"private|counter|number|0", `static readonly|VERSION||"1"`, "|opt|string|"}; !reflect.DeepEqual(props, want) {
		t.Errorf("props = %q", props)
	}
	s := f.Classes[1]
	if s.Name != "Second" || s.Extends != "AbstractAPI" || len(s.Implements) != 2 || s.Implements[1].String() != "J<K>" || s.Abstract || s.Exported {
		t.Errorf("Second: %+v", s)
	}
}

// Every entry is malformed TypeScript that a generator bug could plausibly print.
func TestParseFileErrors(t *testing.T) {
	tests := []struct {
		src, msg string
		line     int
	}{
		{"export type (X[] | null) = []", "expected the name of the type alias", 1},
		{"export type X[] = []", "expected '='", 1},
		{"export type = string", "expected the name", 1},
		{"export type X string", "expected '='", 1},
		{"export type X == string", "expected '='", 1},
		{"export type X = ", "expected a type", 1},
		{"export type X = string string", "expected ';' or a newline after type alias X", 1},
		{"export type X = string; }", "unexpected", 1},
		{"export type X = [A, B", `expected "]"`, 1},
		{"export type X = (A | B", `expected ")"`, 1},
		{"export type X = A | B)", "expected ';' or a newline", 1},
		{"export type X = {a: A", "not closed", 1},
		{"\n\nexport type X = \n| \n", "empty union alternative", 5},
		{"export type X = | { Kind : \"A\", Data: }", "expected a type", 1},
		{"export type string = number", `type alias name cannot be "string"`, 1},
		{"export type class = number", "reserved word", 1},
		{"export type My-Type = number", "expected '='", 1},
		{"export type pkg.Type = number", "expected '='", 1},
		{"export type 1X = number", "cannot immediately follow", 1},
		{"export interface X { a: string", "not closed", 1},
		{"export interface X a: string }", "expected '{'", 1},
		{"export interface { a: string }", "expected the name of the interface", 1},
		{"export interface X {\n\ta: string,\n\tb,\n}", "no type annotation", 3},
		{"export interface X {\n\ta-b: string,\n}", "no type annotation", 2},
		{"export interface X {\n\t: string,\n}", "expected a property name", 2},
		{"export interface X {\n\ta: ,\n}", "expected a type", 2},
		{"export interface X {\n\ta: pkg.,\n}", "between object type members", 2},
		{"export interface X { a: string } }", "unexpected", 1},
		{"export const X = {\n A : 0,\n B : ,\n} as const;", "has no value", 3},
		{"export const X = {\n A : 0\n B : 1\n} as const;", "missing ','", 3},
		{"export const X = {\n A : \"a\" B : 1\n} as const;", "missing ','", 2},
		{"export const X = {\n A 0,\n} as const;", "expected ':' after property name", 2},
		{"export const X = {\n A : 0,\n", "not closed", 1},
		{"export const X = {}.foo", "expected ';' or a newline after const X", 1},
		{"export const X = {\n A : 0,,\n}", "empty property", 2},
		{"export const X = {\n [X.A: 0,\n}", "unbalanced '['", 2},
		{"export const X = {\n []: 0,\n}", "empty computed property name", 2},
		{"export const X = {\n A : \"\\U0001F600\",\n}", "invalid escape sequence", 2},
		{"export const X;", "must be initialised", 1},
		{"export const = {};", "expected the name of the const", 1},
		{"export const X = ;", "expected an expression", 1},
		{"export const X: = 1;", "expected a type", 1},
		{"export const A = 1, B = 2;", "multiple declarators", 1},
		{"declare const X;", "no type annotation", 1},
		{"export", "expected a declaration after 'export'", 1},
		{"export 5", "expected a declaration after 'export'", 1},
		{"export enum E { A }", "enum declarations are not supported", 1},
		{"import { A from \"m\";", "expected", 1},
		{"import A \"m\";", `expected ","`, 1},
		{"import A from m;", "expected a module name string", 1},
		{"import from;", "expected", 1},
		{"foo();", "unexpected \"foo\" at top level", 1},
		{"let x = 1;", "at top level", 1},
		{"function f() {}", "at top level", 1},
		{"}", "at top level", 1},
		{"export type A = B\n)", "at top level", 2},
		{"export abstract class {", "expected the name of the class", 1},
		{"export abstract class C {", "not closed", 1},
		{"export class C { abstract m(): void }", "only appear within an abstract class", 1},
		{"export abstract class C { abstract m(): void {} }", "cannot have an implementation", 1},
		{"export abstract class C { m(a: ) {} }", "expected a type", 1},
		{"export abstract class C { m(a: A {} }", `expected ")"`, 1},
		{"export abstract class C { m(a: A) { }", "not closed", 1},
		{"export abstract class C { m() { ( } }", "not closed", 1},
		{"export abstract class C { a: string b: number }", "expected ';' or a newline after property a", 1},
		{"export abstract class C { = 5 }", "expected a class member", 1},
		{"export abstract class C { get x }", "expected '('", 1},
		{"export abstract class C extends { }", "expected a base class", 1},
		{"class C { constructor(private x: number); }", "parameter property", 1},
		{"class C { constructor(private {a}: P) {} }", "must be a plain identifier", 1},
		{"class C { m() { return \"\\a\" } }", "invalid escape sequence", 1},
	}
	for _, tc := range tests {
		f, err := Parse(tc.src)
		se, ok := err.(*SyntaxError)
		if !ok {
			t.Errorf("Parse(%q) = %v, %v; want *SyntaxError containing %q", tc.src, f, err, tc.msg)
			continue
		}
		if !strings.Contains(se.Msg, tc.msg) {
			t.Errorf("Parse(%q): error %q does not contain %q", tc.src, se.Error(), tc.msg)
		}
		if tc.line != 0 && se.Line != tc.line {
			t.Errorf("Parse(%q): error %q at line %d, want line %d", tc.src, se.Error(), se.Line, tc.line)
		}
	}
}

// Style variations that must all be accepted and produce the same model.
func TestParseStyleVariations(t *testing.T) {
	variants := []string{
		"export interface S {\n\ta: Int,\nb: ( string[] | null),\n\t}\nexport type U = \n\t| { Kind : \"A\", Data: S}\n| { Kind : \"B\", Data: Int}\n\t\nexport type T = [Int,Int,]\nexport type Int = number & { __opaque__: 'Int' };",
		"export interface S {\n  a: Int;\n  b: string[] | null;\n}\nexport type U =\n  | { Kind: \"A\"; Data: S }\n  | { Kind: \"B\"; Data: Int };\nexport type T = [Int, Int];\nexport type Int = number & { __opaque__: \"Int\" };",
		"interface S { a: Int\n b: (string[]) | (null) }\ntype U = { 'Kind': 'A', 'Data': S } | { \"Kind\": 'B'; \"Data\": Int }\ntype T = [Int, Int]; type Int = (number) & ({ __opaque__: 'Int', });",
		"/* c */ export /* c */ interface /* c */ S /* c */ { /* c */ a /* c */ : /* c */ Int /* c */ , // c\n b: string[] | null } // c\n export type U = { Kind: \"A\", Data: S, } | { Kind: \"B\", Data: Int, }; export type T = [Int, Int,]; export type Int = number & { __opaque__: 'Int' }",
	}
	var ref []string
	for i, src := range variants {
		f := mustParse(t, src)
		var got []string
		for _, d := range f.Decls {
			s := d.Kind + " " + d.Name + " = " + d.Type.String()
			// quoted keys are a style difference
			got = append(got, strings.NewReplacer(`"Kind"`, "Kind", `"Data"`, "Data").Replace(s))
		}
		if i == 0 {
			ref = got
			continue
		}
		if !reflect.DeepEqual(got, ref) {
			t.Errorf("variant %d:\n got %q\nwant %q", i, got, ref)
		}
	}
}
