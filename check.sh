#!/bin/bash
# usage: ./check.sh <Cxx> [--replay <dir>]
# Rebuilds the harness against the CURRENT working tree of /repo and runs one check.
# Tier from VERIF_TIER (quick|thorough), seed from VERIF_SEED.
set -u
cd "$(dirname "$0")"
export GOFLAGS=-mod=mod GOPROXY=off GOSUMDB=off GOTOOLCHAIN=local CGO_ENABLED=0
export PATH="/usr/local/go/bin:$PATH"
prop="${1:?usage: check.sh <Cxx>}"
mkdir -p harness/bin evidence
(
  flock 9
  cd harness && go build -o bin/vcheck ./cmd/vcheck
) 9>harness/bin/.build.lock
rc=$?
if [ $rc -ne 0 ]; then
  echo "INCONCLUSIVE property=$prop harness build failed against the current /repo tree (exit $rc)"
  exit 3
fi
exec harness/bin/vcheck "$@"
