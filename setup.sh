#!/bin/bash
# Builds the framework from files on disk only (offline).
set -eu
cd "$(dirname "$0")"
export GOFLAGS=-mod=mod GOPROXY=off GOSUMDB=off GOTOOLCHAIN=local CGO_ENABLED=0
mkdir -p harness/bin evidence
(cd harness && go build -o bin/vcheck ./cmd/vcheck)
(cd harness/support && go build ./...)
echo "setup ok"
