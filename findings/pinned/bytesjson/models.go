package bytesjson

// encoding/json writes every slice whose element kind is uint8 as a base64
// string; the TypeScript (and Dart) generators declare an array of numbers.

type Level uint8

const (
	LevelLow Level = iota
	LevelHigh
)

type Blob struct {
	Raw    []byte
	Levels []Level
	Name   string
}
