package saturatedmap

// A map keyed by a small enum whose elements admit one value only: the generated function inserts
// 40 to 49 random entries, so every call returns the map holding all three keys, although the type
// admits other populated maps.

type Caste int

const (
	Green Caste = iota
	First
	East
)

type Rating string

const OnlyRating Rating = "red"

type RatingByCaste map[Caste]Rating

type Holder struct {
	Ratings RatingByCaste
}
