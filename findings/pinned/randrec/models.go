package randrec

// A recursive type: the generated randTree() calls randSliceTree(), which
// always builds 3..7 elements by calling randTree() again.

type Tree struct {
	Label    string
	Children []Tree
}
