package valuefield

// A struct stored as a JSON column gets generated methods Scan and Value
// (sql.Scanner / driver.Valuer); a field of its own called Value (or Scan)
// collides with them.

type IdOrder int64

type Amount struct {
	Value    int
	Currency string
}

type Order struct {
	Id    IdOrder
	Price Amount
}
