package kindconst

// Two unions whose names share their first two letters and a member:
// gounions derives the constant <Member><Union[0:2]>Kind for both.

type Shape interface{ isShape() }

type Shade interface{ isShade() }

type Circle struct{ R float64 }

type Square struct{ Side int }

func (Circle) isShape() {}
func (Square) isShape() {}
func (Circle) isShade() {}

type Drawing struct {
	Outline Shape
	Fill    Shade
}
