package externid

import "example.com/synth/externid/ids"

// A table whose foreign key uses an ID type declared in another package:
// sqlcrud calls ids.IdThingArrayToPQ / ids.ScanIdThingArray, helpers it only
// emits in the package that declares the ID type.

type IdOrder int64

type Order struct {
	Id      IdOrder
	IdThing ids.IdThing
	Label   string
}
