package ids

type IdThing int64

type Thing struct {
	Id   IdThing
	Name string
}
