package inner

type Color string

const (
	Warm Color = "warm"
	Cold Color = "cold"
)

// Label shares its local name with a struct of the importing package.
type Label struct {
	Ref  int
	Note string
}
