package inner

type Color string

const (
	Warm Color = "warm"
	Cold Color = "cold"
)
