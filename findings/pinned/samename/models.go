package samename

import "example.com/synth/samename/inner"

// Two types with the same local name in two packages: the TypeScript output
// declares `Color` twice.

type Color int

const (
	Red Color = iota
	Green
)

type Label struct {
	Text string
}

type Paint struct {
	Own      Color
	Other    inner.Color
	Tag      Label
	OtherTag inner.Label
}
