// Package echo is a substitute for the http framework echo package.
package echo

type Context interface {
	Bind(interface{}) error
	JSON(int, interface{}) error
	QueryParam(string) string
}

type Echo struct{}

func (Echo) POST(string, func(Context) error) {}
