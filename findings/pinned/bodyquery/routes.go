package main

import (
	"fmt"

	"example.com/synth/bodyquery/echo"
)

type Payload struct {
	A int
	B string `json:"b"`
	C []int
}

type controller struct{}

// save binds a JSON body AND reads two query parameters: the generated client
// method only has the `params` argument for the body.
func (controller) save(c echo.Context) error {
	var in Payload
	if err := c.Bind(&in); err != nil {
		return err
	}
	id, mode := c.QueryParam("id"), c.QueryParam("mode")
	fmt.Println(id, mode)
	return c.JSON(200, in)
}

func routes(e *echo.Echo, ct *controller) {
	e.POST("/save", ct.save)
}

func main() {}
