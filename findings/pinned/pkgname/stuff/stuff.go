package inventory

type IdCrate int64

type Kind int

const (
	Wood Kind = iota
	Steel
)

type Crate struct {
	Ref   IdCrate
	Label string
	Kind  Kind
}
