package pkgname

import "example.com/synth/pkgname/stuff"

// The imported package is called inventory but lives in the directory stuff. The generated Go code
// names inventory.IdCrate and inventory.Kind (types of the fields promoted from the embedded struct,
// which this package never spells) and leaves the import to goimports, which looks for a package named
// inventory only in directories whose path contains that name, or among the symbols sibling files use.

type Shape interface{ isShape() }

type Circle struct{ R int }

func (Circle) isShape() {}

type Drawing struct {
	Main Shape
	inventory.Crate
}
