// Executes a type-stripped gomacro Axios client against recording stand-ins.
// usage: node driver.js <client.js> <calls.json> <out.json>
// calls.json: {className, baseUrl, token, calls:[{id, method, args:[...]}]}; an arg {"__file": "name"} becomes a File.
'use strict';
const fs = require('fs');
const [, , clientPath, callsPath, outPath] = process.argv;
const spec = JSON.parse(fs.readFileSync(callsPath, 'utf8'));
const src = fs.readFileSync(clientPath, 'utf8');

let current = null; // record of the call in progress

class File {
  constructor(name) { this.name = name; this.__isFile = true; }
}
class FormData {
  constructor() { this.entries = []; this.__isFormData = true; }
  append(name, value, filename) {
    const e = { name: name };
    if (value && value.__isFile) { e.file = value.name; } else { e.value = value; e.valueType = typeof value; }
    if (filename !== undefined) e.filename = filename;
    this.entries.push(e);
  }
}
function plain(v) {
  if (v && v.__isFormData) return { __formData: v.entries };
  if (v && v.__isFile) return { __file: v.name };
  return v;
}
function respond(verb, args) {
  if (current) {
    current.requests.push({ verb: verb, nargs: args.length, args: args.map(plain) });
  }
  return Promise.resolve({
    data: spec.responseData,
    headers: { 'content-disposition': 'attachment; filename=' + encodeURIComponent(spec.responseFilename) },
  });
}
const Axios = {
  get: (...a) => respond('get', a), post: (...a) => respond('post', a),
  put: (...a) => respond('put', a), delete: (...a) => respond('delete', a),
};

const factory = new Function('Axios', 'FormData', 'File', src + '\nreturn ' + spec.className + ';');
const Base = factory(Axios, FormData, File);
const errors = [];
let started = 0;
class Client extends Base {
  handleError(e) { errors.push(String(e && e.stack || e)); }
  startRequest() { started++; }
}
const client = new Client(spec.baseUrl, spec.token);

function revive(a) {
  if (a && typeof a === 'object' && a.__file !== undefined) return new File(a.__file);
  return a;
}

(async () => {
  const out = [];
  for (const call of spec.calls) {
    current = { id: call.id, method: call.method, requests: [] };
    errors.length = 0;
    const before = started;
    try {
      if (typeof client[call.method] !== 'function') {
        current.missing = true;
      } else {
        current.returned = await client[call.method](...(call.args || []).map(revive));
        current.returnedUndefined = current.returned === undefined;
      }
    } catch (e) {
      current.thrown = String(e && e.stack || e);
    }
    current.handleErrors = errors.slice();
    current.startRequests = started - before;
    out.push(current);
  }
  current = null;
  const methods = Object.getOwnPropertyNames(Base.prototype).filter(n => n !== 'constructor');
  fs.writeFileSync(outPath, JSON.stringify({ calls: out, methods: methods }));
})();
