#!/usr/bin/env python3
"""Writes /verif/MANIFEST.json from the table below (single source of truth)."""
import json

ALL = ["C%02d" % i for i in range(1, 21)]

# property -> (technique, level text, level note, design ref)
CLAIMED = {
    "C19": (
        "reference-implementation monitor over enumerated + random executions of generator.WriteDeclarations",
        "Every declaration list up to a small length over a small ID alphabet is executed through the real WriteDeclarations and compared with an order-independent reference (exhaustive, closed under permutation), plus random long lists (>12 elements, where sort stability matters) with permutations. Held on the executions produced; exhaustive for the small space.",
        "Trusted: the reference implementation in harness/monitors/c19.go as the specification; precondition 'equal IDs carry equal content' is built into the generator of cases.",
        "DESIGN.md section 5 / C19",
    ),
}

CLAIMED["C20"] = (
    "Go race detector + invocation-log/at-most-once monitor over concurrent FormatFile calls with recording stand-in tools",
    "One shared generator.Formatters is hit by N goroutines released together, for tool configurations present/missing/failing (and: installed but not startable, damaged after its probe on the same cache), in a binary built with -race from the working tree; PATH holds only recording stand-ins. Decided on: race detector log (reports counted and de-duplicated), probe count per cache (<=1), one formatter run per request when present, nil error + untouched bytes when missing, non-nil error when failing (exit status, killed by a signal, or cannot be started). The real cmd binary (-race) is run in config mode writing >=6 files through its goroutine-per-output path. Held on the interleavings produced; overlap of tool processes and distinct completion orders are reported.",
    "Trusted: stand-in tools model the real ones (probe/format command lines read off formatters.go); race detector sees only executed interleavings.",
    "DESIGN.md section 5 / C20",
)
CLAIMED["C17"] = (
    "oracle on LoadSources results over generated directory layouts, ground truth from go list",
    "Generated module layouts (prefix-sharing siblings, nesting, mixed depth, root+child) x file-set forms (abs/rel/../, duplicates, same package, all) and the error cases are loaded through the real analysis.LoadSources in worker processes with their own cwd; checked: no panic, one error-free type-checked package per file containing that file, root an existing directory and path-component ancestor of every file, errors for the error cases.",
    "Trusted: packages.Load / go list of the installed toolchain as ground truth for package membership.",
    "DESIGN.md section 5 / C17",
)

CLAIMED["C18"] = (
    "panic classifier (runtime.Error vs diagnostic) over isolated calls of analysis and all generators on synthesised programs, process aborts attributed by BEGIN log",
    "Every synthesised program (supported families in unusual legal spellings: one-letter names, short package names, multi-name constants, generic instantiations with basic arguments; and unsupported forms x positions) goes through NewAnalysisFromFile and the seven targets, each call under recover() in a worker process; a recovered runtime.Error or a process abort (stack exhaustion made deterministic with SetMaxStack) is a violation, a string/error diagnostic a refusal. Held on the programs produced.",
    "Trusted: classification by the runtime.Error interface; programs are type-checked by packages.Load before analysis.",
    "DESIGN.md section 5 / C18",
)

for _pid, _what in (("C10", "enum detection (members, values, comments, Kind, IsIota soundness/completeness)"), ("C11", "union detection, membership and order, Struct.Implements of every reachable struct node instance"), ("C12", "type graph closure, classification, Type() identity, field identity with embedded flattening, source order, termination")):
    CLAIMED[_pid] = (
        "reference-model monitor: gomacro's analysis result compared in-process with an independent go/types + go/ast walk over synthesised programs; the exact member values are also read back from the generated TypeScript enum objects",
        "Synthesised programs covering the declaration forms of the quantifier are analysed by the real NewAnalysisFromFile in worker processes; an oracle written independently of gomacro (go/types, go/ast, types.Implements) computes the expected " + _what + " and every reachable node of the result is compared with it. Held on the programs produced (counts and feature histogram in evidence).",
        "Trusted: go/types objects delivered by packages.Load; the reference model in harness/monitors/oracle_analysis.go / oracle_c12.go as the specification.",
        "DESIGN.md section 5 / " + _pid,
    )

CLAIMED["C01"] = (
    "type-checker + compiler as oracle on generated Go placed in the synthesised source package (executions of the three Go generators + import fixing)",
    "Synthesised typeprogs and sqlprogs are analysed by the real gomacro; each accepted gounions / randdata / sqlcrud (sets on and off) output goes through x/tools/imports.Process and is type-checked inside its package (go/types overlay), alone and all together, then the real gc compiler builds all packages with the generated files. Held on the programs produced; known findings pinned.",
    "Trusted: imports.Process v0.31.0 = goimports -w; lib/pq replaced by a stand-in with the same API; refusals are not accepted inputs.",
    "DESIGN.md section 5 / C01",
)
CLAIMED["C02"] = (
    "runtime monitor in the compiled package: JSON round trip + wire format compared with a reference encoder (encoding/json on a twin value with hand-written Kind/Data)",
    "The generated union wrappers are compiled into each synthesised package; for every type reaching a union, seeded values are marshalled by the real encoding/json, the document is compared as a JSON tree with the output of a reference encoder that does not use generated code, then unmarshalled and deep-compared with the original (nil == empty). Held on the values produced.",
    "Trusted: the twin construction (reflect.StructOf with the original names and tags, `any` at union-reaching positions) + real encoding/json for every non-union component; union tables from go/types.",
    "DESIGN.md section 5 / C02",
)
CLAIMED["C15"] = (
    "runtime monitor in the compiled package: generated rand functions called repeatedly, values inspected by reflection, stack exhaustion and package initialisation crashes attributed per function, bounded-progress rule for calls that do not return",
    "Every generated rand<ID>() is called repeatedly under a seeded source; values are checked by reflection against enum/union tables computed from go/types (exported constants, non-nil members, populated containers, skipped fields zero), must vary, and go through the C02 JSON round trip; functions of recursive programs run one per process so that non-termination (deterministic stack limit) is attributed. Held on the calls made; the recursion defect is a pinned known finding.",
    "Trusted: registry written by the driver from go/types; 'populated' = at least one element.",
    "DESIGN.md section 5 / C15",
)

CLAIMED["C03"] = (
    "offline checker over recorded events: JSON documents written by the compiled Go package are checked for structural inhabitation of the generated TypeScript declarations (TypeScript-subset parser + type environment)",
    "For every type reachable from the analysed file, seeded values are marshalled by the real encoding/json with the generated wrappers compiled in; the documents are logged and checked against the type environment parsed from typescript.Generate's output (property names exact, primitive kinds, null for nil slices/maps, tuple lengths, enum literal sets, Kind/Data shapes); the output itself must parse and every referenced name be declared exactly once. Held on the documents produced; three pinned known findings.",
    "Trusted: harness/tsmodel (own parser and structural semantics, unit-tested on the repo's samples; no tsc available); Record<K,V> checks key admissibility only.",
    "DESIGN.md section 5 / C03",
)

CLAIMED["C09"] = (
    "ground truth from the real encoding/json in the compiled package vs keys observed in the analysis and in the TypeScript / Dart / SQL-validator outputs; metamorphic pairs compared byte for byte",
    "Struct-only programs sweep the json-tag alphabet x field kinds; the ordered key list of json.Marshal on fully non-empty values (compiled package, no generated code) minus gomacro:\"ignore\" fields is compared with Exported()/JSONName() and with the keys extracted from the TypeScript interface, the Dart fromJson/toJson and the SQL struct validator; (program, program + added/retyped ignored fields) pairs must give identical texts. Held on the structs produced.",
    "Trusted: encoding/json as ground truth; key extraction by tsmodel / dartmodel / a pattern on the validator template.",
    "DESIGN.md section 5 / C09",
)
CLAIMED["C07"] = (
    "hash monitor over repeated executions: same analysis generated twice and with the targets in reverse order, same package, fresh loads, fresh processes and the real cmd binary; Go's randomised map iteration as scheduler, observed orders counted",
    "Every output text of the eight targets is regenerated K times on the same loaded package, k times after fresh loads and in p fresh processes, and the real gomacro command is run repeatedly in config mode; all texts and file sets must be identical. The run records how many distinct map iteration orders it observed. Held on the repetitions made.",
    "Trusted: sha256/byte comparison; raw generator text (no formatter installed).",
    "DESIGN.md section 5 / C07",
)

CLAIMED["C06"] = (
    "structural monitor over generated Dart: token-level extraction of keys, dispatch tables, enum tables, definitions and imports, compared with ground truth from encoding/json (compiled package) and go/types; Dart is generated last, on analyses the other targets have already used, as the command line does",
    "dart.Generate runs on 1-3 source files per program under both root layouts; from the emitted files the harness extracts, per struct, the keys read/written and constructor arity; per union, the Kind/Data dispatch sets and implements clauses; per enum, the value list and wire table; and resolves every used name with Dart's import rules (duplicates, undefined, ambiguous, self import), plus one-file-per-package. Expected values come from json.Marshal in the compiled package, go/types and the reference model. Held on the programs produced.",
    "Dart cannot be executed here (no SDK): only the extracted relations are decided. Trusted: harness/dartmodel extractor (unit-tested on the repo's samples).",
    "DESIGN.md section 5 / C06",
)

CLAIMED["C08"] = (
    "reference-mapping monitor: the emitted SQL script is parsed into tables/columns/constraints and compared column by column with the truth table written by the program synthesiser",
    "Model files covering every column kind, tag and directive are run through the real sql.Generate; the script is parsed (harness/pgmodel) and each table/column is compared with what the synthesiser constructed: name and order, SQL type by the documented mapping, NOT NULL, serial primary key, enum CHECK values, fixed-array length CHECK, jsonb validator CHECK defined in the script, guard DEFAULT + equality CHECK, exactly one FOREIGN KEY per key field to the right table with the tagged ON DELETE, composite CREATE TYPE for local composites. Held on the model files produced.",
    "Trusted: harness/pgmodel script parser; the mapping as stated in the property (int64 -> integer).",
    "DESIGN.md section 5 / C08",
)
CLAIMED["C16"] = (
    "token-level comparison of the expanded directives observed in the SQL and CRUD outputs with the expansions the synthesiser derived while writing each directive",
    "Every directive of every synthesised model file must expand to exactly one token-identical statement (comments ignored) attached to the right table, with nothing unexplained in the constraint section and no internal directive leaking; custom queries are compared in Table.CustomQueries and in the generated Go function (placeholder numbering by first occurrence, one typed argument per distinct name, argument order, SQL text). Held on the directives produced.",
    "Trusted: pgmodel tokenizer (comments dropped), go/parser for the CRUD text.",
    "DESIGN.md section 5 / C16",
)

CLAIMED["C04"] = (
    "offline checker over recorded events: documents written by the compiled Go package and type-directed corruptions of them are evaluated against the generated CHECKs by a PL/pgSQL-subset interpreter with SQL three-valued logic",
    "For every jsonb column of every synthesised model file, documents marshalled from seeded values of the column's Go type (generated union wrappers compiled in) are bound to the column and the generated CHECK + validation functions are evaluated under modelled PostgreSQL semantics: never FALSE or error on emitted documents; FALSE on single-point corruptions of the five classes (unknown key in struct objects and in the {Kind, Data} objects of unions, wrong JSON kind, unknown union Kind, non-member enum value, wrong fixed-array length) directed by the JSON shape computed from go/types; every called function defined in the same script. Held on the documents and corruptions produced.",
    "PostgreSQL is modelled, not run (harness/support/pgmodel: strict builtins, Kleene logic, CHECK passes on TRUE/NULL, plan-time type errors); unsupported constructs make a verdict inconclusive, never accepted.",
    "DESIGN.md section 5 / C04",
)

CLAIMED["C05"] = (
    "online model-based monitor: seeded histories of the generated CRUD functions against a schema-enforcing in-memory database/sql driver loaded from the generated SQL script, compared call by call with a map model; statements and argument vectors recorded",
    "The generated CRUD code (and union wrappers) are compiled into each synthesised model package; the in-memory driver takes its tables, types, CHECKs (incl. the JSON validators), UNIQUE and FOREIGN KEY constraints from the SQL generated for the same file and rejects what PostgreSQL would reject (unknown identifiers, placeholder/argument disagreement, uncoercible values, constraint violations). Seeded histories of insert/select/update/delete, by-foreign-key, by-unique, by-select-key, link-table insert / COPY / delete, map helpers and custom queries are checked online against a map model (with ON DELETE actions). Held on the histories produced.",
    "PostgreSQL and lib/pq are modelled (harness/support/memdb, pgmodel, pqstub), not run; values stay inside the column types' ranges; operations respect the constraints.",
    "DESIGN.md section 5 / C05",
)

CLAIMED["C13"] = (
    "field-by-field comparison of httpapi.ParseEcho's endpoint list with the route table written by the program synthesiser, in worker processes",
    "Synthesised route files (all handler forms, path expression forms, contract call subsets/orders, prefix filters) are parsed by the real ParseEcho; count, order, verb, constant-folded URL, handler name, bound input, return type / blob flag, query parameters with types, form values, form file and JSON form field with its resolved type are compared with what the synthesiser wrote. Held on the routes produced.",
    "Trusted: the synthesiser's route table (built together with the source text); types compared through Type().String().",
    "DESIGN.md section 5 / C13",
)
CLAIMED["C14"] = (
    "execution monitor under Node 20: the generated client is type-stripped and run against recording stand-ins for axios / FormData / File; recorded requests compared with the endpoint contracts; type positions checked by a TypeScript-subset parser",
    "For every synthesised route file in the client's domain the real GenerateAxios output is parsed (valid TypeScript, every mentioned type declared once, one method per endpoint), type-stripped, syntax-checked by V8 and executed: every method is called with generated arguments and the recorded verb, URL, body / FormData entries / null, config.params (exactly the declared query parameters, stringified), Authorization header, responseType and returned value are compared with the contract. Held on the calls made; one pinned known finding.",
    "Trusted: harness/tsmodel for type positions and stripping, V8 for the rest; axios itself is a recording stand-in.",
    "DESIGN.md section 5 / C14",
)

NOT_YET = "check not built yet (work in progress, see DESIGN.md section 5 for the planned monitor)"
NOT_APPLICABLE = {}

def main():
    checks = []
    for pid in ALL:
        if pid not in CLAIMED:
            continue
        tech, text, note, ref = CLAIMED[pid]
        checks.append({
            "property_id": pid,
            "quick_cmd": "./check.sh %s" % pid,
            "thorough_cmd": "VERIF_TIER=thorough ./check.sh %s" % pid,
            "evidence_file": "/verif/evidence/%s.json" % pid,
            "replay_cmd_template": "./check.sh %s --replay {path}" % pid,
            "engine": "vcheck",
            "level_claimed": {"category": "exploration", "text": text, "design_ref": ref},
            "level_note": note,
            "technique": tech,
        })
    na = []
    for pid in ALL:
        if pid in CLAIMED:
            continue
        na.append({"property_id": pid, "reason": NOT_APPLICABLE.get(pid, NOT_YET)})
    manifest = {
        "version": 1,
        "setup_cmd": "./setup.sh",
        "hooks": {
            "guard": "verif",
            "enable": "no hooks are needed: every observation point is a public function, an output text, a process boundary or PATH; the tag 'verif' is reserved",
            "baseline_off_cmd": "./tools/baseline_off.sh",
            "source_commits": [],
            "add_only": True,
        },
        "engines": [{
            "name": "vcheck",
            "path": "/verif/harness",
            "serves_properties": sorted(CLAIMED),
            "kind_free_text": "Go harness (runtime monitors): synthesises Go programs, drives the real gomacro packages from /repo's working tree in worker processes, compiles and runs the generated artefacts, checks recorded events with per-property oracles",
        }],
        "checks": checks,
        "not_applicable": na,
        "notes": "All checks: cd /verif && ./check.sh <Cxx>; VERIF_TIER=quick|thorough, VERIF_SEED=<int>. Exit 0 held / 1 VIOLATION / 3 inconclusive.",
    }
    json.dump(manifest, open("/verif/MANIFEST.json", "w"), indent=1)
    print("wrote MANIFEST.json: %d claimed, %d not claimed" % (len(checks), len(na)))

main()
