#!/bin/bash
# Runs the repository's own test suite (BASELINE.json "cmd") with the verif guard OFF,
# on an rsync copy of /repo (the suite rewrites tracked fixture files), and prints
# go test -json output. The copy is removed afterwards.
set -u
export GOPROXY=off GOSUMDB=off GOTOOLCHAIN=local GOFLAGS=-mod=mod
# the TypeScript formatter probe (npx prettier -v) blocks ~70 s offline: hide npx behind a failing stand-in
scratch=$(mktemp -d /tmp/verif-baseline.XXXXXX)
trap 'rm -rf "$scratch"' EXIT
mkdir -p "$scratch/repo" "$scratch/bin"
rsync -a --exclude .git /repo/ "$scratch/repo/"
printf '#!/bin/sh\nexit 127\n' > "$scratch/bin/npx"; chmod +x "$scratch/bin/npx"
export PATH="$scratch/bin:$PATH"
cd "$scratch/repo" && go test -mod=mod -json -vet=off -count=1 -timeout 25m ./...
