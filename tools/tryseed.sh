#!/bin/bash
# usage: tools/tryseed.sh <patch.diff> <check> [<check> ...]   (applies the patch to /repo, runs the checks, reverts)
patch="$1"; shift
cd /verif
if [ -n "$(git -C /repo status --short)" ]; then echo "/repo not clean"; exit 2; fi
git -C /repo apply "$patch" || { echo "patch does not apply"; exit 2; }
trap 'git -C /repo checkout -- . ; git -C /repo clean -fdq' EXIT
for c in "$@"; do
  for seed in ${SEEDS:-1}; do
    out=$(VERIF_SEED=$seed ./check.sh $c 2>&1); rc=$?
    echo "$c seed=$seed rc=$rc $(echo "$out" | grep -E 'signature=' | sed 's/ cases=.*//' | tr -d ' ' | tr '\n' ' ' | cut -c1-300)"
  done
done
