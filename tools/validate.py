#!/usr/bin/env python3
# validates MANIFEST.json and every evidence file against the given schemas
import json, sys, glob, jsonschema
ok = True
def check(path, schema):
    global ok
    try:
        jsonschema.validate(json.load(open(path)), json.load(open(schema)))
        print("valid  ", path)
    except Exception as e:
        ok = False
        print("INVALID", path, str(e)[:400])
check('/verif/MANIFEST.json', '/root/.vp/MANIFEST.schema.json')
for p in sorted(glob.glob('/verif/evidence/*.json')):
    check(p, '/root/.vp/EVIDENCE.schema.json')
sys.exit(0 if ok else 1)
