#!/bin/bash
# usage: tools/validate_seed.sh <property> <n>   — validates /tmp/seed-<property>/<n> in the worktree /tmp/wt-<property>
# (compiles, repo suite still passes, demo fails with the change and passes without), then stores it under /verif/seeded/<property>-<n>/
set -u
prop=$1; n=$2
seed=/tmp/seed-$prop/$n; wt=/tmp/wt-$prop
export GOFLAGS=-mod=mod GOPROXY=off GOSUMDB=off GOTOOLCHAIN=local
mkdir -p /tmp/fakebin && printf '#!/bin/sh\nexit 1\n' > /tmp/fakebin/npx && chmod +x /tmp/fakebin/npx
export PATH=/tmp/fakebin:$PATH
cd $wt || exit 2
git checkout -q -- . 
demo=verifdemo$n
[ -d $demo ] || cp -r $seed/demo $demo
log=/tmp/validate-$prop-$n.log; : > $log
# demos are Go tests, or a main package to run when the directory holds no test file
demo_cmd() {
  if find $demo -name "*_test.go" | grep -q .; then go test -count=1 ./$demo/...; else go run ./$demo; fi
}
# without the change: demo passes
demo_cmd >> $log 2>&1; without=$?
git apply $seed/patch.diff || { echo "$prop/$n: patch does not apply"; exit 1; }
go build $(go list ./... | grep -v '/httpapi/test$' | grep -v verifdemo) >> $log 2>&1; build=$?
demo_cmd >> $log 2>&1; with=$?
# repo suite with the change (the suite rewrites fixtures: run it last, then restore)
go test -vet=off -count=1 -json $(go list ./... | grep -v verifdemo) > /tmp/validate-$prop-$n.suite.json 2>>$log
suite=$(python3 - /tmp/validate-$prop-$n.suite.json <<'PY'
import json,sys
stable=set(json.load(open('/root/.vp/BASELINE.json'))['stable_pass'])
res={}
for l in open(sys.argv[1]):
    try: e=json.loads(l)
    except: continue
    if e.get('Test') and e['Action'] in('pass','fail'): res[e['Package']+'::'+e['Test']]=e['Action']
bad=[t for t in stable if res.get(t)!='pass']
print('suite-ok' if not bad else 'suite-FAIL:'+','.join(bad))
PY
)
git checkout -q -- . ; git clean -fdq -e 'verifdemo*'
echo "$prop/$n: demo-without-change rc=$without (want 0), build rc=$build (want 0), demo-with-change rc=$with (want !=0), $suite"
if [ $without -eq 0 ] && [ $build -eq 0 ] && [ $with -ne 0 ] && [ "$suite" = "suite-ok" ]; then
  d=/verif/seeded/$prop-$n; rm -rf $d; mkdir -p $d
  cp $seed/patch.diff $d/; cp -r $seed/demo $d/demo
  python3 - "$seed/meta.json" "$d/meta.json" "$prop" <<'PY'
import json,sys
m=json.load(open(sys.argv[1]))
m['validated']={'demo_without_change':'pass','demo_with_change':'fail','go_build':'ok (all packages except the fixture analysis/httpapi/test, a main package without main, which does not link on the unchanged tree either)','repo_suite_with_change':'36 stable tests pass','commands':['go test -count=1 ./verifdemoN/... (without / with the patch applied in a scratch worktree)','go test -vet=off -count=1 -json ./... with the patch applied']}
json.dump(m,open(sys.argv[2],'w'),indent=1)
PY
  echo "   stored in $d"
fi
