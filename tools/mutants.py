#!/usr/bin/env python3
"""Self-made mutation run: applies small source changes to /repo (one at a time),
runs the named quick checks, restores /repo. Usage: tools/mutants.py [name ...]
Every mutant compiles; whether it passes the repo's own tests is not checked here
(the seeded changes under /verif/seeded are the ones validated against the suite)."""
import subprocess, sys, os, json

REPO = "/repo"
M = []
def mut(name, file, old, new, checks):
    M.append((name, file, old, new, checks))

mut("imports-unsorted", "generator/generator.go", "\tsort.Strings(imports) // map iteration order is random : keep the output reproducible\n", "", ["C07"])
mut("implements-unsorted", "analysis/compounds.go", "\tsort.Slice(out, func(i, j int) bool { return out[i].name.String() < out[j].name.String() })\n", "\t_ = sort.Slice\n", ["C11", "C07"])
mut("jsonname-raw-tag", "analysis/compounds.go", '\tname, _, _ := strings.Cut(st.Tag.Get("json"), ",")\n', '\tname := st.Tag.Get("json")\n', ["C09", "C03", "C06"])
mut("exported-ignores-json-dash", "analysis/compounds.go", '\tif name := st.Tag.Get("json"); name == "-" {\n\t\treturn false\n\t}\n', "", ["C09", "C03"])
mut("isiota-duplicates", "analysis/enums.go", "\t\tif seen[v] {\n\t\t\treturn // duplicated value : positions and values do not match\n\t\t}\n", "", ["C10", "C06"])
mut("unions-admit-interfaces", "analysis/unions.go", "\t\t\tif _, isItf := member.Underlying().(*types.Interface); isItf {\n\t\t\t\tcontinue\n\t\t\t}\n", "", ["C11"])
mut("no-early-registration", "analysis/analysis.go", "\t\t\tan.Types[typ] = str                                        // register before recursing\n", "", ["C12", "C18"])
mut("placeholder-off-by-one", "generator/go/sqlcrud/sql.go", 'placeholdersNoPrimary = append(placeholdersNoPrimary, fmt.Sprintf("$%d", len(placeholdersNoPrimary)+1))', 'placeholdersNoPrimary = append(placeholdersNoPrimary, fmt.Sprintf("$%d", len(placeholdersNoPrimary)+2))', ["C05"])
mut("update-where-id-wrong-index", "generator/go/sqlcrud/primary_table.go", "\t\tcols.columnsCount, ta.Columns[primaryIndex].Field.Field.Name(),", "\t\tcols.columnsCount-1, ta.Columns[primaryIndex].Field.Field.Name(),", ["C05"])
mut("uint8-not-smallint", "analysis/sql/types.go", "\t\tcase types.Int16, types.Uint8:\n", "\t\tcase types.Int16:\n", ["C08"])
mut("slice-columns-not-null", "generator/sql/tables.go", "\t\t\treturn fmt.Sprintf(\" CHECK (array_length(%s, 1) = %d) NOT NULL\", field.Field.Field.Name(), L)\n\t\t}\n\t\treturn \"\"", "\t\t\treturn fmt.Sprintf(\" CHECK (array_length(%s, 1) = %d) NOT NULL\", field.Field.Field.Name(), L)\n\t\t}\n\t\treturn \"NOT NULL\"", ["C08", "C05"])
mut("on-delete-dropped", "generator/sql/tables.go", '\t\tonDelete = "ON DELETE " + action\n', '\t\tonDelete = ""\n\t\t_ = action\n', ["C08", "C05"])
mut("vmap-no-null", "generator/sql/json.go", "\t\tIF jsonb_typeof(data) = 'null' THEN -- accept null value coming from nil maps \n\t\t\tRETURN TRUE;\n\t\tEND IF;\n", "", ["C04"])
mut("vunion-no-else", "generator/sql/json.go", '\tcases = append(cases, "ELSE RETURN FALSE;") // unknown Kind type\n', "", ["C04"])
mut("ts-slice-not-nullable", "generator/typescript/types.go", '\t\treturn fmt.Sprintf("( %s[] | null)", typeName(ty.Elem))', '\t\treturn fmt.Sprintf("( %s[] )", typeName(ty.Elem))', ["C03"])
mut("axios-get-with-null-body", "generator/typescript/axios_api.go", "\treturn a.Method == http.MethodPost || a.Method == http.MethodPut\n", "\treturn a.Method == http.MethodPost || a.Method == http.MethodPut || a.Method == http.MethodGet\n", ["C14"])
mut("axios-query-not-stringified", "generator/typescript/axios_api.go", '\t\treturn fmt.Sprintf("%q: String(params[%q])", param.Name, param.Name) // stringify', '\t\treturn fmt.Sprintf("%q: params[%q]", param.Name, param.Name) // stringify', ["C14"])
mut("prefix-contains", "analysis/httpapi/parse_echo.go", "!strings.HasPrefix(path, ex.restrictPrefix)", "!strings.Contains(path, ex.restrictPrefix)", ["C13"])
mut("dart-implements-unexported", "generator/dart/typedecls.go", "\t\tif !imp.IsExported() {\n\t\t\tcontinue\n\t\t}\n", "", ["C06"])
mut("write-decls-unstable", "generator/generator.go", "\tsort.SliceStable(decls, func(i, j int) bool { return decls[i].Priority && !decls[j].Priority })", "\tsort.Slice(decls, func(i, j int) bool { return decls[i].Priority && !decls[j].Priority })", ["C19"])
mut("formatters-no-cache", "generator/formatters.go", "\tif fmts.hasDartFmt == nil {\n", "\tif true {\n", ["C20"])
mut("formatters-swallow-error", "generator/formatters.go", '\t\t\treturn exec.Command("pg_format", "-i", filename).Run()\n', '\t\t\texec.Command("pg_format", "-i", filename).Run()\n\t\t\treturn nil\n', ["C20"])
mut("formatters-missing-is-error", "generator/formatters.go", "\t\tif fr.hasDart() {\n\t\t\treturn exec.Command(\"dart\", \"format\", filename).Run()\n\t\t}\n", "\t\treturn exec.Command(\"dart\", \"format\", filename).Run()\n", ["C20"])
mut("common-prefix-chars", "analysis/analysis.go", "\t\tif rest := p[len(prefix):]; rest != \"\" && !strings.HasPrefix(rest, sep) && !strings.HasSuffix(prefix, sep) {", "\t\tif rest := p[len(prefix):]; false && rest != \"\" && !strings.HasPrefix(rest, sep) && !strings.HasSuffix(prefix, sep) {", ["C17"])
mut("gounions-kind-uses-wrong-name", "generator/go/gounions/gounions.go", "\t\tkindValue := memberName\n", "\t\tkindValue := strings.ToLower(memberName[:1]) + memberName[1:]\n", ["C02", "C03"])
mut("randdata-enum-includes-unexported", "generator/go/randdata/data.go", "\t\tif !val.Const.Exported() {\n\t\t\tcontinue\n\t\t}\n\n\t\tfullString", "\t\tfullString", ["C15"])
mut("randdata-ignores-skip-tag", "generator/go/randdata/data.go", '|| field.Tag.Get("gomacro-data") == "ignore" {', '|| field.Tag.Get("gomacro-data") == "skip" {', ["C15"])
mut("enum-comment-lost", "analysis/enums.go", "\treturn strings.TrimSpace(spec.Comment.Text())\n", "\treturn strings.TrimSpace(spec.Doc.Text())\n", ["C10"])
mut("source-order-by-name", "analysis/analysis.go", "\tsort.Slice(objs, func(i, j int) bool { return objs[i].Pos() < objs[j].Pos() })\n", "", ["C12"])
mut("table-name-replacer-substring", "generator/generator.go", "var reWords = regexp.MustCompile(`([\\w]+)`)", "var reWords = regexp.MustCompile(`([A-Za-z0-9]+)`)", ["C16"])
mut("query-placeholders-by-occurrence", "analysis/sql/sql.go", "\t\tif _, has := fieldToIndex[varName]; has {\n\t\t\tcontinue // value already seen\n\t\t}\n", "", ["C16"])
mut("fk-wrong-table-name", "generator/sql/tables.go", "gen.SQLTableName(sourceTable), fk.F.Field.Name(), gen.SQLTableName(fk.Target), onDelete)", "gen.SQLTableName(sourceTable), fk.F.Field.Name(), gen.ToSnakeCase(string(fk.Target)), onDelete)", ["C08", "C05"])
mut("dart-enum-index-always", "generator/dart/typedecls.go", "\tif typ.IsIota { // we can just use Dart builtin enums", "\tif typ.IsInteger() { // we can just use Dart builtin enums", ["C06"])
mut("ts-enum-exported-only", "generator/typescript/types.go", "\tfor _, val := range enum.Members {\n\t\tvarName := val.Const.Name()", "\tfor _, val := range enum.Members {\n\t\tif !val.Const.Exported() {\n\t\t\tcontinue\n\t\t}\n\t\tvarName := val.Const.Name()", ["C03"])

def run(cmd, **kw):
    return subprocess.run(cmd, shell=True, capture_output=True, text=True, **kw)

def main():
    names = set(sys.argv[1:])
    results = {}
    assert run("git -C %s status --short" % REPO).stdout.strip() == "", "/repo not clean"
    for name, file, old, new, checks in M:
        if names and name not in names:
            continue
        path = os.path.join(REPO, file)
        src = open(path).read()
        if old not in src:
            print("%-36s SKIP (pattern not found in %s)" % (name, file)); continue
        open(path, "w").write(src.replace(old, new, 1))
        try:
            b = run("cd /verif/harness && GOFLAGS=-mod=mod GOPROXY=off GOSUMDB=off GOTOOLCHAIN=local go build -o /dev/null ./cmd/vcheck 2>&1")
            if b.returncode != 0:
                print("%-36s DOES-NOT-COMPILE %s" % (name, b.stdout[:200])); continue
            verdicts = []
            for c in checks:
                r = run("cd /verif && ./check.sh %s" % c)
                sigs = [l.split("signature=")[1].split(" ")[0] for l in r.stdout.splitlines() if l.strip().startswith("signature=")]
                verdicts.append("%s:%s%s" % (c, {0: "held", 1: "VIOLATION", 3: "inconclusive"}.get(r.returncode, r.returncode), (" [" + ",".join(sigs[:3]) + "]") if sigs else ""))
            results[name] = verdicts
            print("%-36s %s" % (name, "  ".join(verdicts)), flush=True)
        finally:
            open(path, "w").write(src)
    run("git -C %s checkout -- ." % REPO)
    json.dump(results, open("/verif/tools/mutants-last.json", "w"), indent=1)

main()
