#!/bin/bash
# Re-runs every stored seeded change against the check of its property (quick tier, seeds in $SEEDS, default "1 2")
# and prints one line per seed. /repo must be clean; it is restored after each seed.
cd /verif
for d in seeded/C*-*; do
  prop=$(basename $d | cut -d- -f1)
  if grep -q '"obsolete"' /verif/$d/meta.json; then echo "$(basename $d): obsolete (neutralised by a fix, see meta.json)"; continue; fi
  out=$(SEEDS="${SEEDS:-1 2}" tools/tryseed.sh /verif/$d/patch.diff $prop 2>&1)
  caught=$(echo "$out" | grep -c "rc=1")
  total=$(echo "$out" | grep -c "rc=")
  echo "$(basename $d): caught at $caught of $total seeds | $(echo "$out" | grep -o 'signature=[^ ]*' | sort -u | head -3 | tr '\n' ' ')"
done
