#!/bin/bash
# runs every claimed quick (or thorough with VERIF_TIER=thorough) check and prints one line per check
cd "$(dirname "$0")/.."
for id in $(python3 -c "import json;print(' '.join(c['property_id'] for c in json.load(open('MANIFEST.json'))['checks']))"); do
  start=$(date +%s)
  out=$(./check.sh $id 2>&1); rc=$?
  end=$(date +%s)
  echo "$id rc=$rc $((end-start))s $(echo "$out" | grep -cE '^KNOWN-FINDING') known | $(echo "$out" | grep -E '^(VIOLATION|HELD|INCONCLUSIVE)' | head -3 | cut -c1-160 | tr '\n' ' ')"
done
